/-
Lemmas about the dim-string parser model (`JaxVerif.Model.Parse`) used by the C14 properties:
modifier stripping consumes a modifier prefix independently of its order, whitespace splitting of a
rendered specification, the token loop over concatenated token lists.
Core Lean only.
-/
import JaxVerif.Spec.Parse
namespace JV

theorem isMod_iff (c : Char) : isMod c = true ↔ c = '#' ∨ c = '*' ∨ c = '_' ∨ c = '?' := by
  simp [isMod, or_assoc]

def setMod (c : Char) (m : Mods) : Option Mods :=
  if c == '#' then (if m.broadcastable then none else some { m with broadcastable := true })
  else if c == '*' then (if m.variadic then none else some { m with variadic := true })
  else if c == '_' then (if m.anonymous then none else some { m with anonymous := true })
  else if c == '?' then (if m.treepath then none else some { m with treepath := true })
  else none

def consume : List Char → Mods → Option Mods
  | [], m => some m
  | c :: cs, m => (setMod c m).bind (consume cs)

theorem stripMods_mod_step (f : Nat) (c : Char) (rest : List Char) (m : Mods) (hc : isMod c = true) :
    stripMods (f + 1) (c :: rest) m = (setMod c m).bind (fun m' => stripMods f rest m') := by
  rcases (isMod_iff c).mp hc with rfl | rfl | rfl | rfl
  · by_cases h : m.broadcastable = true <;> simp [stripMods, setMod, h]
  · by_cases h : m.variadic = true <;> simp [stripMods, setMod, h]
  · by_cases h : m.anonymous = true <;> simp [stripMods, setMod, h]
  · by_cases h : m.treepath = true <;> simp [stripMods, setMod, h]

theorem stripMods_consume (ms : List Char) (hm : ∀ c ∈ ms, isMod c = true) (k : Nat) (rest : List Char)
    (m : Mods) :
    stripMods (ms.length + k) (ms ++ rest) m = (consume ms m).bind (fun m' => stripMods k rest m') := by
  induction ms generalizing m with
  | nil => simp [consume]
  | cons c cs ih =>
    have hlen : (c :: cs).length + k = (cs.length + k) + 1 := by simp; omega
    rw [hlen, List.cons_append, stripMods_mod_step _ _ _ _ (hm c (by simp))]
    simp only [consume]
    cases h : setMod c m with
    | none => simp
    | some m' => simp [ih (fun d hd => hm d (by simp [hd]))]

/-- flags of `m` together with those of `ms` -/
def addMods (m : Mods) (ms : List Char) : Mods :=
  { broadcastable := m.broadcastable || ms.contains '#', variadic := m.variadic || ms.contains '*',
    anonymous := m.anonymous || ms.contains '_', treepath := m.treepath || ms.contains '?' }

/-- `c`'s flag is set in `m` -/
def hasFlag (m : Mods) (c : Char) : Bool :=
  (c == '#' && m.broadcastable) || (c == '*' && m.variadic) || (c == '_' && m.anonymous) ||
    (c == '?' && m.treepath)

theorem setMod_eq (c : Char) (m : Mods) (hc : isMod c = true) :
    setMod c m = if hasFlag m c then none else some (addMods m [c]) := by
  rcases (isMod_iff c).mp hc with rfl | rfl | rfl | rfl
  · by_cases h : m.broadcastable = true <;> simp [setMod, hasFlag, addMods, h]
  · by_cases h : m.variadic = true <;> simp [setMod, hasFlag, addMods, h]
  · by_cases h : m.anonymous = true <;> simp [setMod, hasFlag, addMods, h]
  · by_cases h : m.treepath = true <;> simp [setMod, hasFlag, addMods, h]

theorem hasFlag_addMods (m : Mods) (c d : Char) (hd : isMod d = true) :
    hasFlag (addMods m [c]) d = (hasFlag m d || d == c) := by
  rcases (isMod_iff d).mp hd with rfl | rfl | rfl | rfl <;> rw [Bool.eq_iff_iff] <;> simp [hasFlag, addMods]

theorem addMods_addMods (m : Mods) (c : Char) (cs : List Char) :
    addMods (addMods m [c]) cs = addMods m (c :: cs) := by
  simp [addMods, Bool.or_assoc]

theorem addMods_nil (m : Mods) : addMods m [] = m := by
  simp [addMods]

theorem consume_none_of_flag (ms : List Char) (hm : ∀ c ∈ ms, isMod c = true) (m : Mods)
    (h : ∃ d ∈ ms, hasFlag m d = true) : consume ms m = none := by
  induction ms generalizing m with
  | nil => simp at h
  | cons c cs ih =>
    simp only [consume]
    rw [setMod_eq c m (hm c (by simp))]
    by_cases hf : hasFlag m c = true
    · simp [hf]
    · simp only [hf]
      obtain ⟨d, hd, hfd⟩ := h
      rcases List.mem_cons.mp hd with rfl | hd
      · exact absurd hfd hf
      · simp only [Bool.false_eq_true, if_false, Option.bind_some]
        refine ih (fun e he => hm e (by simp [he])) _ ⟨d, hd, ?_⟩
        rw [hasFlag_addMods _ _ _ (hm d (by simp [hd])), hfd]; rfl

theorem consume_none_of_dup (ms : List Char) (hm : ∀ c ∈ ms, isMod c = true) (m : Mods)
    (h : ¬ ms.Nodup) : consume ms m = none := by
  induction ms generalizing m with
  | nil => simp at h
  | cons c cs ih =>
    simp only [consume]
    rw [setMod_eq c m (hm c (by simp))]
    by_cases hf : hasFlag m c = true
    · simp [hf]
    · simp only [hf, Bool.false_eq_true, if_false, Option.bind_some]
      have hm' : ∀ e ∈ cs, isMod e = true := fun e he => hm e (by simp [he])
      by_cases hc : c ∈ cs
      · refine consume_none_of_flag cs hm' _ ⟨c, hc, ?_⟩
        rw [hasFlag_addMods _ _ _ (hm c (by simp))]; simp
      · exact ih hm' _ (fun hn => h (List.nodup_cons.mpr ⟨hc, hn⟩))

theorem consume_some (ms : List Char) (hm : ∀ c ∈ ms, isMod c = true) (m : Mods)
    (hn : ms.Nodup) (hf : ∀ c ∈ ms, hasFlag m c = false) : consume ms m = some (addMods m ms) := by
  induction ms generalizing m with
  | nil => simp [consume, addMods_nil]
  | cons c cs ih =>
    simp only [consume]
    rw [setMod_eq c m (hm c (by simp)), hf c (by simp)]
    simp only [Bool.false_eq_true, if_false, Option.bind_some]
    have hn' := List.nodup_cons.mp hn
    rw [ih (fun e he => hm e (by simp [he])) _ hn'.2, addMods_addMods]
    intro d hd
    rw [hasFlag_addMods _ _ _ (hm d (by simp [hd])), hf d (by simp [hd])]
    have : d ≠ c := fun h => hn'.1 (h ▸ hd)
    simp [this]

theorem hasFlag_empty (c : Char) : hasFlag {} c = false := by simp [hasFlag]

theorem addMods_empty (ms : List Char) : addMods {} ms = modsOf ms := by simp [addMods, modsOf]

theorem modsOf_perm {ms₁ ms₂ : List Char} (hp : ms₁.Perm ms₂) : modsOf ms₁ = modsOf ms₂ := by
  simp [modsOf, hp.mem_iff]

/-- the modifier prefix is consumed: order of `ms` does not matter -/
theorem consume_empty (ms : List Char) (hm : ∀ c ∈ ms, isMod c = true) :
    consume ms {} = if ms.Nodup then some (modsOf ms) else none := by
  split
  · next h => rw [consume_some ms hm {} h (fun c _ => hasFlag_empty c), addMods_empty]
  · next h => exact consume_none_of_dup ms hm {} h

theorem consume_perm {ms₁ ms₂ : List Char} (hp : ms₁.Perm ms₂) (hm : ∀ c ∈ ms₁, isMod c = true) :
    consume ms₁ {} = consume ms₂ {} := by
  rw [consume_empty ms₁ hm, consume_empty ms₂ (fun c hc => hm c (hp.mem_iff.mpr hc)), modsOf_perm hp]
  simp [hp.nodup_iff]


/-! ### the three syntactic pre-checks of `parseTok` -/

/-- what `parseTok` does with the outcome of the stripping loop -/
def tokFinish : Option (List Char × Mods) → Option (PDim × Bool)
  | none => none
  | some (base, m) =>
    match classify base with
    | .fixed k =>
      if m.variadic || m.anonymous || m.treepath then none
      else some (.fixed k m.broadcastable, false)
    | .named =>
      if m.anonymous then
        if m.broadcastable then none
        else if m.variadic then some (.anonVar, true) else some (.anon, false)
      else if m.variadic then some (.namedVar base m.broadcastable m.treepath, true)
      else some (.named base m.broadcastable m.treepath, false)
    | .symbolic =>
      if m.anonymous || m.variadic || m.treepath then none
      else some (.sym base m.broadcastable, false)

theorem parseTok_eq (elem : List Char) :
    parseTok elem =
      if elem.contains ',' && !elem.contains '(' then none
      else if elem.getLast? == some '#' then none
      else if hasSub ['.', '.', '.'] elem then
        if elem != ['.', '.', '.'] then none else some (.anonVar, true)
      else tokFinish (stripMods (elem.length + 1) elem {}) := by
  unfold parseTok tokFinish
  rfl

theorem isMod_ne {c : Char} (hc : isMod c = true) : c ≠ ',' ∧ c ≠ '(' ∧ c ≠ '.' ∧ c ≠ '=' := by
  rcases (isMod_iff c).mp hc with rfl | rfl | rfl | rfl <;> decide

theorem contains_append_of_ne (pre rest : List Char) (d : Char) (h : ∀ c ∈ pre, c ≠ d) :
    (pre ++ rest).contains d = rest.contains d := by
  induction pre with
  | nil => rfl
  | cons c cs ih =>
    have hc : (d == c) = false := by simpa using (h c (by simp)).symm
    simp only [List.cons_append, List.contains_cons, hc, Bool.false_or]
    exact ih (fun e he => h e (by simp [he]))

theorem hasSub_dots_cons (c : Char) (l : List Char) (hc : c ≠ '.') :
    hasSub ['.', '.', '.'] (c :: l) = hasSub ['.', '.', '.'] l := by
  have : ('.' == c) = false := by simpa using hc.symm
  simp [hasSub, List.isPrefixOf, this]

theorem hasSub_dots_append (pre rest : List Char) (h : ∀ c ∈ pre, c ≠ '.') :
    hasSub ['.', '.', '.'] (pre ++ rest) = hasSub ['.', '.', '.'] rest := by
  induction pre with
  | nil => rfl
  | cons c cs ih =>
    rw [List.cons_append, hasSub_dots_cons _ _ (h c (by simp))]
    exact ih (fun e he => h e (by simp [he]))

theorem getLast?_append_ne_nil (pre rest : List Char) (h : rest ≠ []) :
    (pre ++ rest).getLast? = rest.getLast? := by
  cases rest with
  | nil => exact absurd rfl h
  | cons a as => simp [List.getLast?_append, List.getLast?_cons]

theorem append_ne_dots (pre rest : List Char) (hne : pre ≠ []) (h : ∀ c ∈ pre, c ≠ '.') :
    ((pre ++ rest) != ['.', '.', '.']) = true := by
  cases pre with
  | nil => exact absurd rfl hne
  | cons c cs =>
    have := h c (by simp)
    simp [this]

/-! ### the stripping loop on a token with a modifier prefix -/

theorem stripMods_prefix (ms rest : List Char) (hm : ∀ c ∈ ms, isMod c = true) :
    stripMods ((ms ++ rest).length + 1) (ms ++ rest) {} =
      (consume ms {}).bind (fun m' => stripMods (rest.length + 1) rest m') := by
  have : (ms ++ rest).length + 1 = ms.length + (rest.length + 1) := by
    simp [List.length_append]; omega
  rw [this, stripMods_consume ms hm]

/-- the loop stops at a character that is no modifier when the text has not exactly one `=` -/
theorem stripMods_stop (f : Nat) (b : Char) (bs : List Char) (m : Mods) (hb : isMod b = false)
    (hc : countEq (b :: bs) ≠ 1) : stripMods (f + 1) (b :: bs) m = some (b :: bs, m) := by
  simp [isMod] at hb
  simp [stripMods, hb, hc]


/-! ### C14: modifier order, documented illegal forms -/

theorem contains_perm {l₁ l₂ : List Char} (hp : l₁.Perm l₂) (c : Char) :
    l₁.contains c = l₂.contains c := by
  rw [Bool.eq_iff_iff]; simp [hp.mem_iff]

theorem parseTok_perm (ms₁ ms₂ rest : List Char) (hp : ms₁.Perm ms₂)
    (hm : ∀ c ∈ ms₁, isMod c = true)
    (hlast : rest ≠ [] ∨ (ms₁.getLast? ≠ some '#' ∧ ms₂.getLast? ≠ some '#')) :
    parseTok (ms₁ ++ rest) = parseTok (ms₂ ++ rest) := by
  have hm₂ : ∀ c ∈ ms₂, isMod c = true := fun c hc => hm c (hp.mem_iff.mpr hc)
  by_cases hnil : ms₁ = []
  · subst hnil
    rw [hp.nil_eq]
  have hnil₂ : ms₂ ≠ [] := fun h => hnil (by subst h; exact hp.eq_nil)
  have hpa := hp.append_right rest
  have hd₁ : ∀ c ∈ ms₁, c ≠ '.' := fun c hc => (isMod_ne (hm c hc)).2.2.1
  have hd₂ : ∀ c ∈ ms₂, c ≠ '.' := fun c hc => (isMod_ne (hm₂ c hc)).2.2.1
  have hlast' : ((ms₁ ++ rest).getLast? == some '#') = ((ms₂ ++ rest).getLast? == some '#') := by
    by_cases hr : rest = []
    · subst hr
      rcases hlast with h | ⟨h₁, h₂⟩
      · exact absurd rfl h
      · simp only [List.append_nil]
        rw [beq_eq_false_iff_ne.mpr h₁, beq_eq_false_iff_ne.mpr h₂]
    · rw [getLast?_append_ne_nil _ _ hr, getLast?_append_ne_nil _ _ hr]
  rw [parseTok_eq, parseTok_eq, contains_perm hpa ',', contains_perm hpa '(', hlast',
    hasSub_dots_append _ _ hd₁, hasSub_dots_append _ _ hd₂, append_ne_dots _ _ hnil hd₁,
    append_ne_dots _ _ hnil₂ hd₂, stripMods_prefix _ _ hm, stripMods_prefix _ _ hm₂,
    consume_perm hp hm]

theorem parseTok_comma (tok : List Char) (h : tok.contains ',' = true) (hp : tok.contains '(' = false) :
    parseTok tok = none := by
  rw [parseTok_eq, h, hp]; rfl

theorem parseTok_trailing_hash (tok : List Char) (h : tok.getLast? = some '#') : parseTok tok = none := by
  simp [parseTok, h]

theorem parseTok_ellipsis_mods (tok : List Char) (h : hasSub ['.', '.', '.'] tok = true)
    (hne : tok ≠ ['.', '.', '.']) : parseTok tok = none := by
  have hne' : (tok != ['.', '.', '.']) = true := by simpa using hne
  rw [parseTok_eq, h, hne']
  simp

/-- a token starting with a non-empty modifier prefix: the outcome is an error or is decided by
    the stripping loop -/
theorem parseTok_prefix (ms rest : List Char) (hm : ∀ c ∈ ms, isMod c = true) (hne : ms ≠ []) :
    parseTok (ms ++ rest) = none ∨
    parseTok (ms ++ rest) =
      tokFinish ((consume ms {}).bind (fun m' => stripMods (rest.length + 1) rest m')) := by
  have hd : ∀ c ∈ ms, c ≠ '.' := fun c hc => (isMod_ne (hm c hc)).2.2.1
  rw [parseTok_eq, append_ne_dots _ _ hne hd, stripMods_prefix _ _ hm]
  split
  · exact Or.inl rfl
  · split
    · exact Or.inl rfl
    · split
      · exact Or.inl rfl
      · exact Or.inr rfl

theorem parseTok_repeated (ms rest : List Char) (c : Char) (hc : isMod c = true)
    (hm : ∀ d ∈ ms, isMod d = true) (hin : c ∈ ms) : parseTok (ms ++ c :: rest) = none := by
  have happ : ms ++ c :: rest = (ms ++ [c]) ++ rest := by simp
  have hm' : ∀ d ∈ ms ++ [c], isMod d = true := by
    intro d hd
    rcases List.mem_append.mp hd with hd | hd
    · exact hm d hd
    · simp at hd; subst hd; exact hc
  have hdup : ¬ (ms ++ [c]).Nodup := by
    intro hn
    have := (List.nodup_append.mp hn).2.2 c hin c (by simp)
    exact this rfl
  rw [happ]
  rcases parseTok_prefix (ms ++ [c]) rest hm' (by simp) with h | h
  · exact h
  · rw [h, consume_none_of_dup _ hm' _ hdup]; rfl

theorem parseTok_illegal_modifier (ms base : List Char)
    (hm : ∀ d ∈ ms, isMod d = true) (hb : base ≠ [] ∧ isMod (base.head!) = false ∧ countEq base ≠ 1) :
    (∀ k, classify base = .fixed k → (ms.contains '*' ∨ ms.contains '_' ∨ ms.contains '?') →
        parseTok (ms ++ base) = none) ∧
    (classify base = .symbolic → (ms.contains '*' ∨ ms.contains '_' ∨ ms.contains '?') →
        parseTok (ms ++ base) = none) ∧
    (classify base = .named → ms.contains '_' → ms.contains '#' → parseTok (ms ++ base) = none) := by
  obtain ⟨hbne, hbh, hbc⟩ := hb
  cases base with
  | nil => exact absurd rfl hbne
  | cons b bs =>
    change isMod b = false at hbh
    have key : ms ≠ [] → parseTok (ms ++ b :: bs) = none ∨
        parseTok (ms ++ b :: bs) = tokFinish (some (b :: bs, modsOf ms)) := by
      intro hne
      rcases parseTok_prefix ms (b :: bs) hm hne with h | h
      · exact Or.inl h
      · rw [consume_empty ms hm] at h
        split at h
        · right; rw [h]; simp [stripMods_stop _ b bs _ hbh hbc]
        · left; rw [h]; rfl
    refine ⟨?_, ?_, ?_⟩
    · intro k hk hms
      have hne : ms ≠ [] := by rintro rfl; simp at hms
      rcases key hne with h | h
      · exact h
      · rw [h]; simp only [tokFinish, hk, modsOf]
        rcases hms with h' | h' | h' <;> (simp at h'; simp [h'])
    · intro hk hms
      have hne : ms ≠ [] := by rintro rfl; simp at hms
      rcases key hne with h | h
      · exact h
      · rw [h]; simp only [tokFinish, hk, modsOf]
        rcases hms with h' | h' | h' <;> (simp at h'; simp [h'])
    · intro hk h1 h2
      have hne : ms ≠ [] := by rintro rfl; simp at h1
      rcases key hne with h | h
      · exact h
      · rw [h]; simp at h1 h2; simp [tokFinish, hk, modsOf, h1, h2]


/-! ### fuel independence of the stripping loop, and `name=` prefixes -/

theorem afterEq_length_le (l : List Char) : (afterEq l).length ≤ l.length := by
  induction l with
  | nil => simp [afterEq]
  | cons c cs ih =>
    simp only [afterEq]
    split
    · simp
    · simp; omega

theorem afterEq_cons_length_le (c : Char) (cs : List Char) : (afterEq (c :: cs)).length ≤ cs.length := by
  simp only [afterEq]
  split
  · exact Nat.le_refl _
  · exact afterEq_length_le cs

theorem stripMods_nonmod_step (f : Nat) (c : Char) (rest : List Char) (m : Mods) (hc : isMod c = false) :
    stripMods (f + 1) (c :: rest) m =
      if countEq (c :: rest) == 1 then stripMods f (afterEq (c :: rest)) m else some (c :: rest, m) := by
  simp [isMod] at hc
  simp [stripMods, hc]

/-- any fuel exceeding the length of the text gives the same answer -/
theorem stripMods_fuel (f₁ f₂ : Nat) (elem : List Char) (m : Mods) (h₁ : elem.length < f₁)
    (h₂ : elem.length < f₂) : stripMods f₁ elem m = stripMods f₂ elem m := by
  induction f₁ generalizing f₂ elem m with
  | zero => omega
  | succ f₁ ih =>
    cases f₂ with
    | zero => omega
    | succ f₂ =>
      cases elem with
      | nil => simp [stripMods]
      | cons c rest =>
        simp only [List.length_cons] at h₁ h₂
        cases hc : isMod c with
        | true =>
          rw [stripMods_mod_step _ _ _ _ hc, stripMods_mod_step _ _ _ _ hc]
          cases setMod c m with
          | none => rfl
          | some m' => exact ih f₂ rest m' (by omega) (by omega)
        | false =>
          rw [stripMods_nonmod_step _ _ _ _ hc, stripMods_nonmod_step _ _ _ _ hc]
          have := afterEq_cons_length_le c rest
          split
          · exact ih f₂ _ m (by omega) (by omega)
          · rfl

theorem ident_chars (name : List Char) (hn : isIdentifier name = true) :
    ∀ d ∈ name, (isAlpha d || isDigit d || d == '_') = true := by
  cases name with
  | nil => simp [isIdentifier] at hn
  | cons a as =>
    simp only [isIdentifier, Bool.and_eq_true, List.all_eq_true] at hn
    intro d hd
    rcases List.mem_cons.mp hd with rfl | hd
    · rcases Bool.or_eq_true _ _ |>.mp hn.1 with h | h <;> simp [h]
    · exact hn.2 d hd

theorem idChar_ne {d : Char} (h : (isAlpha d || isDigit d || d == '_') = true) :
    d ≠ '=' ∧ d ≠ ',' ∧ d ≠ '(' ∧ d ≠ '.' := by
  refine ⟨?_, ?_, ?_, ?_⟩ <;> (rintro rfl; revert h; decide)

theorem isMod_of_isAlpha {a : Char} (h : isAlpha a = true) : isMod a = false := by
  cases hm : isMod a with
  | false => rfl
  | true => rcases (isMod_iff a).mp hm with rfl | rfl | rfl | rfl <;> (revert h; decide)

theorem countEq_append (l₁ l₂ : List Char) : countEq (l₁ ++ l₂) = countEq l₁ + countEq l₂ := by
  simp [countEq, List.filter_append]

theorem countEq_of_ne (l : List Char) (h : ∀ c ∈ l, c ≠ '=') : countEq l = 0 := by
  simp only [countEq, List.length_eq_zero_iff, List.filter_eq_nil_iff]
  intro c hc; simpa using h c hc

theorem afterEq_append (l rest : List Char) (h : ∀ c ∈ l, c ≠ '=') :
    afterEq (l ++ '=' :: rest) = rest := by
  induction l with
  | nil => simp [afterEq]
  | cons c cs ih =>
    have hc : (c == '=') = false := by simpa using h c (by simp)
    simp only [List.cons_append, afterEq, hc]
    exact ih (fun d hd => h d (by simp [hd]))

theorem parseTok_doc (name rest : List Char) (hn : isIdentifier name = true) (hu : name.head? ≠ some '_')
    (hr : countEq rest = 0) (hd : hasSub ['.', '.', '.'] rest = false) :
    parseTok (name ++ '=' :: rest) = parseTok rest := by
  have hchars := ident_chars name hn
  have hneq : ∀ c ∈ name, c ≠ '=' := fun c hc => (idChar_ne (hchars c hc)).1
  have happ : name ++ '=' :: rest = (name ++ ['=']) ++ rest := by simp
  have hpre : ∀ c ∈ name ++ ['='], c ≠ ',' ∧ c ≠ '(' ∧ c ≠ '.' := by
    intro c hc
    rcases List.mem_append.mp hc with hc | hc
    · exact (idChar_ne (hchars c hc)).2
    · simp at hc; subst hc; decide
  have hc1 : (name ++ '=' :: rest).contains ',' = rest.contains ',' := by
    rw [happ]; exact contains_append_of_ne _ _ _ (fun c hc => (hpre c hc).1)
  have hc2 : (name ++ '=' :: rest).contains '(' = rest.contains '(' := by
    rw [happ]; exact contains_append_of_ne _ _ _ (fun c hc => (hpre c hc).2.1)
  have hc3 : hasSub ['.', '.', '.'] (name ++ '=' :: rest) = false := by
    rw [happ, hasSub_dots_append _ _ (fun c hc => (hpre c hc).2.2), hd]
  have hc4 : ((name ++ '=' :: rest).getLast? == some '#') = (rest.getLast? == some '#') := by
    by_cases hrn : rest = []
    · subst hrn; simp
    · rw [happ, getLast?_append_ne_nil _ _ hrn]
  have hstrip : stripMods ((name ++ '=' :: rest).length + 1) (name ++ '=' :: rest) {} =
      stripMods (rest.length + 1) rest {} := by
    cases name with
    | nil => simp [isIdentifier] at hn
    | cons a as =>
      have ha : isAlpha a = true := by
        simp only [isIdentifier, Bool.and_eq_true, Bool.or_eq_true] at hn
        rcases hn.1 with h | h
        · exact h
        · simp at h; subst h; simp at hu
      have hcount : countEq (a :: as ++ '=' :: rest) = 1 := by
        rw [countEq_append, countEq_of_ne _ hneq]
        have : countEq ('=' :: rest) = countEq rest + 1 := by simp [countEq]
        omega
      rw [List.cons_append, stripMods_nonmod_step _ _ _ _ (isMod_of_isAlpha ha)]
      rw [← List.cons_append, hcount, afterEq_append _ _ hneq]
      simp only [beq_self_eq_true, if_true]
      exact stripMods_fuel _ _ _ _ (by simp; omega) (by omega)
  rw [parseTok_eq, parseTok_eq, hc1, hc2, hc4, hc3, hd, hstrip]
  simp only [Bool.false_eq_true, if_false]


/-! ### whitespace splitting -/

theorem splitWsAux_ws (w s : List Char) (hw : AllWs w) : splitWsAux (w ++ s) [] = splitWsAux s [] := by
  induction w with
  | nil => rfl
  | cons c cs ih =>
    have hc : isWs c = true := hw c (by simp)
    simp only [List.cons_append, splitWsAux, hc, if_true, List.isEmpty_nil]
    exact ih (fun d hd => hw d (by simp [hd]))

theorem splitWsAux_tok (tok s cur : List Char) (ht : ∀ c ∈ tok, isWs c = false) :
    splitWsAux (tok ++ s) cur = splitWsAux s (tok.reverse ++ cur) := by
  induction tok generalizing cur with
  | nil => rfl
  | cons c cs ih =>
    have hc : isWs c = false := ht c (by simp)
    simp only [List.cons_append, splitWsAux, hc, Bool.false_eq_true, if_false]
    rw [ih _ (fun d hd => ht d (by simp [hd]))]
    simp

/-- a pending token followed only by whitespace -/
theorem splitWsAux_trailing (w cur : List Char) (hw : AllWs w) (hc : cur ≠ []) :
    splitWsAux w cur = [cur.reverse] := by
  have hce : cur.isEmpty = false := by cases cur with
    | nil => exact absurd rfl hc
    | cons _ _ => rfl
  cases w with
  | nil => simp [splitWsAux, hce]
  | cons c cs =>
    have hcw : isWs c = true := hw c (by simp)
    have := splitWsAux_ws cs [] (fun d hd => hw d (by simp [hd]))
    simp only [List.append_nil] at this
    simp [splitWsAux, hcw, hce, this]

theorem renderSpec_cons (c : Char) (w : List Char) (items : List (List Char × List Char)) :
    renderSpec (c :: w) items = c :: renderSpec w items := by
  cases items with
  | nil => rfl
  | cons it rest => obtain ⟨t, ws⟩ := it; simp [renderSpec]

theorem splitWs_render (lead : List Char) (items : List (List Char × List Char))
    (hl : AllWs lead) (ht : ∀ it ∈ items, IsToken it.1 ∧ AllWs it.2) (hs : SepsOk items) :
    splitWs (renderSpec lead items) = items.map (·.1) := by
  unfold splitWs
  induction items generalizing lead with
  | nil =>
    have := splitWsAux_ws lead [] hl
    simp only [List.append_nil] at this
    simp [renderSpec, this, splitWsAux]
  | cons it rest ih =>
    obtain ⟨tok, ws⟩ := it
    obtain ⟨⟨htne, htok⟩, hws⟩ := ht (tok, ws) (by simp)
    have hrev : tok.reverse ≠ [] := by simpa using htne
    have hrev_e : tok.reverse.isEmpty = false := by simpa using htne
    simp only [renderSpec, List.map_cons]
    rw [List.append_assoc, splitWsAux_ws _ _ hl, splitWsAux_tok _ _ _ htok, List.append_nil]
    cases rest with
    | nil =>
      simp only [renderSpec, List.map_nil]
      rw [splitWsAux_trailing _ _ hws hrev, List.reverse_reverse]
    | cons r rest' =>
      have hs' : ws ≠ [] ∧ SepsOk (r :: rest') := hs
      cases ws with
      | nil => exact absurd rfl hs'.1
      | cons c ws' =>
        have hcw : isWs c = true := hws c (by simp)
        rw [renderSpec_cons]
        simp only [splitWsAux, hcw, if_true, hrev_e, Bool.false_eq_true, if_false, List.reverse_reverse]
        rw [ih ws' (fun d hd => hws d (by simp [hd])) (fun it hit => ht it (by simp [hit])) hs'.2]

theorem parseSpec_render_congr (lead lead' : List Char) (items items' : List (List Char × List Char))
    (hl : AllWs lead) (hl' : AllWs lead')
    (ht : ∀ it ∈ items, IsToken it.1 ∧ AllWs it.2) (ht' : ∀ it ∈ items', IsToken it.1 ∧ AllWs it.2)
    (hs : SepsOk items) (hs' : SepsOk items') (heq : items.map (·.1) = items'.map (·.1)) :
    parseSpec (renderSpec lead items) = parseSpec (renderSpec lead' items') := by
  unfold parseSpec
  rw [splitWs_render lead items hl ht hs, splitWs_render lead' items' hl' ht' hs', heq]

theorem splitWsAux_space (s₂ s₁ cur : List Char) :
    splitWsAux (s₂ ++ ' ' :: s₁) cur = splitWsAux s₂ cur ++ splitWsAux s₁ [] := by
  induction s₂ generalizing cur with
  | nil =>
    have : isWs ' ' = true := by decide
    simp only [List.nil_append, splitWsAux, this, if_true]
    cases cur <;> simp
  | cons c cs ih =>
    simp only [List.cons_append, splitWsAux]
    split
    · split <;> simp [ih]
    · exact ih _

theorem splitWs_space (s₂ s₁ : List Char) : splitWs (s₂ ++ ' ' :: s₁) = splitWs s₂ ++ splitWs s₁ :=
  splitWsAux_space s₂ s₁ []

/-! ### the token loop -/

theorem parseToks_ellipsis (pre post : List (List Char)) (idx : Nat) (iv : Option Nat) :
    parseToks (pre ++ ['.', '.', '.'] :: post) idx iv = parseToks (pre ++ ['*', '_'] :: post) idx iv := by
  have h1 : parseTok ['.', '.', '.'] = some (.anonVar, true) := by decide
  have h2 : parseTok ['*', '_'] = some (.anonVar, true) := by decide
  induction pre generalizing idx iv with
  | nil => simp only [List.nil_append, parseToks, h1, h2]
  | cons t ts ih =>
    simp only [List.cons_append, parseToks]
    cases parseTok t with
    | none => rfl
    | some p =>
      obtain ⟨d, isVar⟩ := p
      simp only [ih]

/-- once a multi-axis specifier has been seen, a second one is an error -/
theorem parseToks_var_some (pre post : List (List Char)) (u : List Char) (e : PDim)
    (hu : parseTok u = some (e, true)) (idx : Nat) (iv : Option Nat) (hiv : iv.isSome = true) :
    parseToks (pre ++ u :: post) idx iv = none := by
  induction pre generalizing idx iv with
  | nil => simp [parseToks, hu, hiv]
  | cons t ts ih =>
    simp only [List.cons_append, parseToks]
    cases parseTok t with
    | none => rfl
    | some p =>
      obtain ⟨d, isVar⟩ := p
      simp only
      split
      · rfl
      · rw [ih]
        cases isVar <;> simp [hiv]

theorem parseToks_two_variadics (ts₁ ts₂ ts₃ : List (List Char)) (t u : List Char) (d e : PDim)
    (ht : parseTok t = some (d, true)) (hu : parseTok u = some (e, true)) (idx : Nat) (iv : Option Nat) :
    parseToks (ts₁ ++ t :: ts₂ ++ u :: ts₃) idx iv = none := by
  rw [List.append_assoc, List.cons_append]
  induction ts₁ generalizing idx iv with
  | nil =>
    simp only [List.nil_append, parseToks, ht]
    split
    · rfl
    · rw [parseToks_var_some ts₂ ts₃ u e hu _ _ (by simp)]
  | cons s ss ih =>
    simp only [List.cons_append, parseToks]
    cases parseTok s with
    | none => rfl
    | some p =>
      obtain ⟨d', isVar⟩ := p
      simp only
      split
      · rfl
      · rw [ih]

theorem parseToks_length (ts : List (List Char)) (idx : Nat) (iv : Option Nat) (ds : List PDim)
    (iv' : Option Nat) (h : parseToks ts idx iv = some (ds, iv')) : ds.length = ts.length := by
  induction ts generalizing idx iv ds iv' with
  | nil => simp [parseToks] at h; simp [h.1.symm]
  | cons t ts ih =>
    simp only [parseToks] at h
    cases hp : parseTok t with
    | none => simp [hp] at h
    | some p =>
      obtain ⟨d, isVar⟩ := p
      simp only [hp] at h
      split at h
      · cases h
      · cases hr : parseToks ts (idx + 1) (if isVar = true then some idx else iv) with
        | none => simp [hr] at h
        | some q =>
          obtain ⟨ds', iv''⟩ := q
          simp only [hr, Option.some.injEq, Prod.mk.injEq] at h
          rw [← h.1, List.length_cons, List.length_cons, ih _ _ _ _ hr]

theorem parseToks_append (a b : List (List Char)) (idx : Nat) (iv : Option Nat) :
    parseToks (a ++ b) idx iv =
      match parseToks a idx iv with
      | none => none
      | some (da, iva) =>
        match parseToks b (idx + a.length) iva with
        | none => none
        | some (db, ivb) => some (da ++ db, ivb) := by
  induction a generalizing idx iv with
  | nil =>
    simp only [List.nil_append, parseToks, List.length_nil, Nat.add_zero]
    cases parseToks b idx iv with
    | none => rfl
    | some q => rfl
  | cons t ts ih =>
    simp only [List.cons_append, parseToks]
    cases parseTok t with
    | none => rfl
    | some p =>
      obtain ⟨d, isVar⟩ := p
      simp only
      split
      · rfl
      · rw [ih]
        have hl : idx + 1 + ts.length = idx + (t :: ts).length := by simp; omega
        rw [hl]
        cases parseToks ts (idx + 1) (if isVar = true then some idx else iv) with
        | none => rfl
        | some q =>
          obtain ⟨da, iva⟩ := q
          simp only
          cases parseToks b (idx + (t :: ts).length) iva with
          | none => rfl
          | some r => rfl

/-- shifting the token index shifts the multi-axis index -/
theorem parseToks_shift (ts : List (List Char)) (idx k : Nat) (iv : Option Nat) (ds : List PDim)
    (iv' : Option Nat) (h : parseToks ts idx iv = some (ds, iv')) :
    parseToks ts (idx + k) (iv.map (· + k)) = some (ds, iv'.map (· + k)) := by
  induction ts generalizing idx iv ds iv' with
  | nil => simp [parseToks] at h ⊢; simp [h.1, h.2]
  | cons t ts ih =>
    simp only [parseToks] at h ⊢
    cases hp : parseTok t with
    | none => simp [hp] at h
    | some p =>
      obtain ⟨d, isVar⟩ := p
      simp only [hp] at h ⊢
      split at h
      · cases h
      · next hcond =>
        cases hr : parseToks ts (idx + 1) (if isVar = true then some idx else iv) with
        | none => simp [hr] at h
        | some q =>
          obtain ⟨ds', iv''⟩ := q
          simp only [hr, Option.some.injEq, Prod.mk.injEq] at h
          have hi := ih _ _ _ _ hr
          have e1 : idx + 1 + k = idx + k + 1 := by omega
          have e2 : Option.map (· + k) (if isVar = true then some idx else iv) =
              if isVar = true then some (idx + k) else iv.map (· + k) := by
            cases isVar <;> simp
          rw [e1, e2] at hi
          simp only [Option.isSome_map] 
          rw [if_neg hcond, hi, ← h.1, ← h.2]

/-- a run that ends with no multi-axis index started with none and can be replayed after one -/
theorem parseToks_no_var (ts : List (List Char)) (idx : Nat) (iv : Option Nat) (ds : List PDim)
    (h : parseToks ts idx iv = some (ds, none)) :
    iv = none ∧ ∀ idx' i, parseToks ts idx' (some i) = some (ds, some i) := by
  induction ts generalizing idx iv ds with
  | nil => simp [parseToks] at h ⊢; exact ⟨h.2, h.1⟩
  | cons t ts ih =>
    simp only [parseToks] at h ⊢
    cases hp : parseTok t with
    | none => simp [hp] at h
    | some p =>
      obtain ⟨d, isVar⟩ := p
      simp only [hp] at h ⊢
      split at h
      · cases h
      · cases hr : parseToks ts (idx + 1) (if isVar = true then some idx else iv) with
        | none => simp [hr] at h
        | some q =>
          obtain ⟨ds', iv''⟩ := q
          simp only [hr, Option.some.injEq, Prod.mk.injEq] at h
          obtain ⟨h1, h2⟩ := h
          subst h2
          obtain ⟨hi1, hi2⟩ := ih _ _ _ hr
          cases isVar with
          | true => simp at hi1
          | false =>
            simp only [Bool.false_eq_true, if_false] at hi1
            refine ⟨hi1, fun idx' i => ?_⟩
            simp [hi2, h1]

theorem parseSpec_concat (s₁ s₂ : List Char) (d₁ d₂ : List PDim) (iv₁ iv₂ : Option Nat)
    (h₁ : parseSpec s₁ = some (d₁, iv₁)) (h₂ : parseSpec s₂ = some (d₂, iv₂))
    (hv : iv₁ = none ∨ iv₂ = none) :
    parseSpec (s₂ ++ ' ' :: s₁) =
      some (d₂ ++ d₁, match iv₂ with
                      | some i => some i
                      | none => iv₁.map (· + d₂.length)) := by
  have h₁' : parseToks (splitWs s₁) 0 none = some (d₁, iv₁) := h₁
  cases iv₂ with
  | none =>
    have h₂' : parseToks (splitWs s₂) 0 none = some (d₂, none) := h₂
    have hlen := parseToks_length _ _ _ _ _ h₂'
    show parseToks (splitWs (s₂ ++ ' ' :: s₁)) 0 none = some (d₂ ++ d₁, iv₁.map (· + d₂.length))
    rw [splitWs_space, parseToks_append, h₂']
    have := parseToks_shift _ 0 (splitWs s₂).length none _ _ h₁'
    simp only [Option.map_none] at this
    simp only [this, hlen]
  | some i =>
    have h₂' : parseToks (splitWs s₂) 0 none = some (d₂, some i) := h₂
    have hn : iv₁ = none := by rcases hv with h | h; exact h; cases h
    subst hn
    show parseToks (splitWs (s₂ ++ ' ' :: s₁)) 0 none = some (d₂ ++ d₁, some i)
    rw [splitWs_space, parseToks_append, h₂']
    simp only [(parseToks_no_var _ _ _ _ h₁').2]

end JV
