"""C07 — on well-typed calls a decorated function is indistinguishable from the original."""
import asyncio
import inspect
import json
import typing

import beartype
import typeguard

import impl
import impl_prog
import jaxtyping
import os

from common import REPO, Rng
from impl import Duck
from jaxtyping import Float, TypeCheckError, jaxtyped

LEVEL = "proof"
THEOREMS = [
    "C07_gensym_fresh",
    "C07_gensym_form",
    "C07_scope_wellformed",
    "C07_same_signature",
    "C07_once",
    "C07_bind_error",
    "C07_result_passthrough",
    "C07_generated_good",
    "C07_source_wrapper",
]
RULE = (
    "generated signatures (1..6 parameters over all five kinds, defaults, annotated and unannotated, "
    "names drawn from a pool containing T0/default0/ret0/T1/ret1/the function's own name) x callable "
    "kinds {def, lambda, async def, callable object} x descriptor kinds {function, method, classmethod, "
    "staticmethod, property} x {typeguard, beartype}; each with binding well-typed (keywords named like the "
    "wrapper's generated identifiers ret0/T0/default0/the function's name swallowed by **kwargs), binding "
    "ill-typed (at a named parameter, or only among the extras of an annotated *args / **kwargs) and "
    "non-binding argument lists; observed: call counter, identity of received arguments, returned object "
    "identity / exception class, __name__/__qualname__/__doc__/__module__, inspect.signature, descriptor "
    "kind; plus the generated identifier scope of _make_fn_with_signature against the model; non-trivial = "
    ">=2 parameter kinds or a colliding name; distinct by (signature, callable kind, call)"
)
TRUSTED = [
    "Lean 4 kernel",
    "functools.wraps, inspect.signature and descriptor unwrapping (metadata clauses are checked on the implementation only)",
    "Python's own argument binding (the generated def is compared with the original by calling both)",
    "harness/translate_wrap.py (recognisers of the statements of the jaxtyped wrappers, _JaxtypingContext and _get_problem_arg) and the interpreters Model/WrapDsl.lean / Model/BlameDsl.lean (the typechecker passes, the one-parameter checker and message-text statements are primitives)",
]

NAME_POOL = ["x", "y", "z", "T0", "default0", "ret0", "T1", "default1", "ret1", "T2", "fn", "args", "kwargs", "w"]
KINDS = ["posonly", "pos", "varpos", "kwonly", "varkw"]
CHECKERS = {"typeguard": typeguard.typechecked, "beartype": beartype.beartype}
A = Float[Duck, "a"]
RES = Duck((3,), "float32")
DEF = Duck((3,), "float32")


class _Ambiguous:
    def __bool__(self):
        raise ValueError("The truth value of an array with more than one element is ambiguous")


class ArrayEqDuck(Duck):
    """compares element-wise like a NumPy array of several elements: the result of == / != has no truth value"""
    __hash__ = None

    def __eq__(self, other):
        return _Ambiguous()

    def __ne__(self, other):
        return _Ambiguous()


class AlwaysEqDuck(Duck):
    """equal to everything (unittest.mock.ANY, a zero-size array whose comparison is an empty, falsy array)"""
    def __eq__(self, other):
        return True

    def __ne__(self, other):
        return False

    __hash__ = object.__hash__


# default objects of the generated signatures: what a default IS is decided by identity with the `empty` marker, never
# by comparing the user's object
DEFS = [DEF, ArrayEqDuck((3,), "float32"), AlwaysEqDuck((3,), "float32")]
DEF_CHOICE = [0]


def gen_sig(rng):
    n = rng.rng(1, 6)
    names = rng.sample(NAME_POOL, n)
    # kinds in Python's mandatory order
    kinds = sorted((rng.choice(["posonly", "pos", "pos", "kwonly", "kwonly", "varpos", "varkw"]) for _ in range(n)), key=KINDS.index)
    out = []
    seen_vp = seen_vk = False
    default_started = False
    for nm, k in zip(names, kinds):
        if k == "varpos":
            if seen_vp:
                k = "kwonly"
            seen_vp = True
        if k == "varkw":
            if seen_vk:
                continue
            seen_vk = True
        has_default = False
        if k in ("posonly", "pos"):
            if default_started or rng.chance(1, 4):
                has_default = default_started = True
        elif k == "kwonly":
            has_default = rng.chance(1, 3)
        out.append({"name": nm, "kind": k, "default": has_default, "annotated": rng.chance(2, 3)})
    # kwonly after varpos ordering: re-sort
    out.sort(key=lambda p: KINDS.index(p["kind"]))
    return out


def render_params(sig, annot=True):
    parts = []
    has_posonly = any(p["kind"] == "posonly" for p in sig)
    emitted_slash = False
    emitted_star = False
    for p in sig:
        if p["kind"] != "posonly" and has_posonly and not emitted_slash:
            parts.append("/")
            emitted_slash = True
        piece = p["name"]
        if annot and p["annotated"]:
            piece += ": A"
        if p["default"]:
            piece += " = DEF"
        if p["kind"] == "varpos":
            piece = "*" + piece
            emitted_star = True
        elif p["kind"] == "kwonly" and not emitted_star:
            parts.append("*")
            emitted_star = True
        elif p["kind"] == "varkw":
            piece = "**" + piece
        parts.append(piece)
    if has_posonly and not emitted_slash:
        parts.append("/")
    return ", ".join(parts)


class Recorder:
    def __init__(self):
        self.calls = []


def build(sig, fname, flavour, rec, annot_ret=True, raises=None):
    """the original callable (undecorated)"""
    params = render_params(sig, annot=flavour != "lambda")
    names = [p["name"] for p in sig]
    scope = {"A": A, "DEF": DEFS[DEF_CHOICE[0]], "REC": rec, "RES": RES, "RAISES": raises}
    record = "REC.calls.append({" + ", ".join(f"{n!r}: {n}" for n in names) + "})"
    if flavour == "lambda":
        src = f"{fname} = lambda {params}: ({record}, RES)[1]"
    else:
        head = "async def" if flavour == "async" else "def"
        ret = " -> A" if annot_ret else ""
        src = f"{head} {fname}({params}){ret}:\n    'doc of the function'\n    {record}\n    if RAISES: raise RAISES('body')\n    return RES"
    exec(src, scope)
    fn = scope[fname]
    return fn


def gen_call(rng, sig, mode, fname="fn"):
    """mode: good | bad-type | bad-variadic | nobind. returns (args, kwargs, planted) where planted says that
    exactly one annotated parameter received an ill-typed value"""
    ok = lambda: Duck((3,), "float32")  # noqa: E731
    args, kwargs = [], {}
    for p in sig:
        k = p["kind"]
        if k == "posonly":
            if not p["default"] or rng.chance(1, 2):
                args.append(ok())
        elif k == "pos":
            if p["default"] and rng.chance(1, 2):
                continue
            if rng.chance(1, 2) and not kwargs:
                args.append(ok())
            else:
                kwargs[p["name"]] = ok()
        elif k == "varpos":
            if not kwargs or all(q["kind"] not in ("pos",) or q["name"] not in kwargs for q in sig):
                for _ in range(rng.below(3)):
                    args.append(ok())
        elif k == "kwonly":
            if not p["default"] or rng.chance(1, 2):
                kwargs[p["name"]] = ok()
        elif k == "varkw":
            taken = {q["name"] for q in sig}
            pool = [n for n in ("extra0", "extra1", "ret0", "T0", "default0", "ret1", "T1", "fn0", "self", "kwargs", "args", fname) if n not in taken]
            for nm in rng.sample(pool, rng.below(4)):
                kwargs[nm] = ok()
    planted = False
    if mode == "bad-variadic":
        # every positional parameter positionally, then an ill-typed value among the extras of an annotated
        # *args / **kwargs parameter (and nowhere else)
        args, kwargs = [], {}
        for p in sig:
            if p["kind"] in ("posonly", "pos"):
                args.append(ok())
            elif p["kind"] == "kwonly" and not p["default"]:
                kwargs[p["name"]] = ok()
        vp = [p for p in sig if p["kind"] == "varpos" and p["annotated"]]
        vk = [p for p in sig if p["kind"] == "varkw" and p["annotated"]]
        bad = Duck((3, 3), "float32")
        if vp and (not vk or rng.chance(1, 2)):
            args += [ok()] * rng.below(2) + [bad]
            planted = True
        elif vk:
            kwargs["extra_ok"] = ok()
            kwargs["extra_bad"] = bad
            planted = True
        return args, kwargs, planted
    if mode == "bad-type":
        tgt = [p for p in sig if p["annotated"] and p["kind"] in ("pos", "kwonly", "posonly")]
        if tgt:
            p = rng.choice(tgt)
            bad = Duck((3, 3), "float32")
            if p["name"] in kwargs:
                kwargs[p["name"]] = bad
                planted = True
            elif args and sig[0]["annotated"] and sig[0]["kind"] in ("posonly", "pos"):
                args[0] = bad
                planted = True
    elif mode == "nobind":
        r = rng.below(3)
        if r == 0:
            kwargs["__nope__"] = 1
            if any(p["kind"] == "varkw" for p in sig):
                args = args + [ok()] * 9
        elif r == 1:
            args = args + [ok()] * 9
            if any(p["kind"] == "varpos" for p in sig):
                kwargs[sig[0]["name"]] = ok()
                args = [ok()] + args
        else:
            args, kwargs = [], {}
            if all(p["default"] or p["kind"] in ("varpos", "varkw") for p in sig):
                kwargs["__nope__"] = 1
                if any(p["kind"] == "varkw" for p in sig):
                    args = [ok()] * 12
    return args, kwargs, planted


def outcome(fn, args, kwargs, is_async=False):
    try:
        r = fn(*args, **kwargs)
        if is_async:
            r = asyncio.run(r)
        return ("ret", r is RES)
    except TypeCheckError:
        return ("tce", None)
    except BaseException as e:  # noqa: BLE001
        if isinstance(e, (SystemExit, KeyboardInterrupt)):
            raise
        return ("raise", type(e).__name__)


def ids(calls):
    return [{k: (tuple(id(x) for x in v) if isinstance(v, tuple) else {kk: id(vv) for kk, vv in v.items()} if isinstance(v, dict) else id(v)) for k, v in c.items()} for c in calls]


def check_metadata(out, f, g, tag, rep):
    for attr in ("__name__", "__qualname__", "__doc__", "__module__"):
        if getattr(f, attr, None) != getattr(g, attr, None):
            out.violation(f"metadata:{attr}:{tag}", f"{attr} changed from {getattr(f, attr, None)!r} to {getattr(g, attr, None)!r}", rep)
    try:
        if inspect.signature(f) != inspect.signature(g):
            out.violation(f"metadata:signature:{tag}", f"signature changed from {inspect.signature(f)} to {inspect.signature(g)}", rep)
    except (TypeError, ValueError):
        pass


def scope_correspondence(out, drv, sig, fname):
    try:
        from jaxtyping._decorator import _make_fn_with_signature
    except ImportError:
        return
    rec = Recorder()
    f = build(sig, fname, "def", rec)
    s = inspect.signature(f)
    for output in (False, True):
        try:
            r = _make_fn_with_signature(fname, fname, "m", s, output=output)
        except Exception as e:  # noqa: BLE001
            out.violation(f"make_fn:{type(e).__name__}", f"the wrapper could not synthesise a function for def {fname}({render_params(sig)}): {e!r}", {"sig": sig, "fname": fname})
            return
        gen = r[0] if output else r
        w = drv.ask({"cmd": "gensym", "fn": fname, "params": [p["name"] for p in sig], "output": output})
        got_params = list(inspect.signature(gen).parameters)
        # what the interpreter itself adds to a globals dict (`__builtins__` on exec, `__warningregistry__` once a warning was
        # issued from code running in it) is not a generated identifier
        scope_names = sorted(k for k in gen.__globals__ if k not in ("__builtins__", "__warningregistry__"))
        want_scope = sorted(w["scope"][1:])
        out.count("scope_checked")
        if sorted(got_params) != sorted(w["params"]) or scope_names != want_scope:
            out.model_diff("gensym", f"generated identifiers differ: impl params {got_params} scope {scope_names}; model params {w['params']} scope {want_scope}", {"sig": sig, "fname": fname})
        # the synthesised def must have the original's parameters - same names, kinds, default-presence, same
        # order - plus (with output) one fresh keyword-only parameter placed with the keyword-only group
        gsig = inspect.signature(gen)
        want_sig = [(n, q.kind, q.default is not inspect.Parameter.empty) for n, q in s.parameters.items()]
        got_sig = [(n, q.kind, q.default is not inspect.Parameter.empty) for n, q in gsig.parameters.items()]
        if output:
            extra = [t for t in got_sig if t[0] not in s.parameters]
            ok_extra = len(extra) == 1 and extra[0][1] == inspect.Parameter.KEYWORD_ONLY and not extra[0][2]
            got_core = [t for t in got_sig if t[0] in s.parameters]
        else:
            ok_extra, got_core = True, got_sig
        kname = {inspect.Parameter.POSITIONAL_ONLY: "posonly", inspect.Parameter.POSITIONAL_OR_KEYWORD: "pos", inspect.Parameter.VAR_POSITIONAL: "varpos",
                 inspect.Parameter.KEYWORD_ONLY: "kwonly", inspect.Parameter.VAR_KEYWORD: "varkw"}
        outname = next((t[0] for t in got_sig if t[0] not in s.parameters), None) if output else None
        wr = drv.ask({"cmd": "rendersig", "params": [{"name": n, "kind": kname[k], "default": d} for n, k, d in want_sig], "output": outname})
        if wr["parsed"] != [[n, kname[k], d] for n, k, d in got_sig]:
            out.model_diff("rendersig", f"signature of the synthesised def: implementation {got_sig}, model {wr['parsed']} (rendered {wr['pieces']})", {"sig": sig, "fname": fname})
        if got_core != want_sig or not ok_extra:
            out.violation("generated-signature", f"the checking function synthesised for def {fname}({render_params(sig)}) has signature {gsig}: its parameters must be the original's (names, kinds, defaults present) {'plus one keyword-only output parameter' if output else ''}", {"sig": sig, "fname": fname})
        allnames = got_params + scope_names
        if len(set(allnames)) != len(allnames) or (fname in scope_names):
            out.violation("scope-collision", f"generated identifiers collide: params {got_params} scope {scope_names} function {fname}", {"sig": sig, "fname": fname})


def run_sig(out, drv, rng, sig, fname, ck, flavour):
    tc = CHECKERS[ck]
    rec_f, rec_g = Recorder(), Recorder()
    is_async = flavour == "async"
    annot_ret = not is_async or rng.chance(1, 2)
    DEF_CHOICE[0] = rng.below(len(DEFS)) if any(p["default"] for p in sig) else 0
    defname = type(DEFS[DEF_CHOICE[0]]).__name__
    f = build(sig, fname, flavour, rec_f, annot_ret)
    g0 = build(sig, fname, flavour, rec_g, annot_ret)
    DEF_CHOICE[0] = 0
    rep = {"signature": sig, "function_name": fname, "checker": ck, "callable": flavour, "source_params": render_params(sig), "return_annotated": annot_ret,
           "default_object": defname}
    try:
        g = jaxtyped(typechecker=tc)(g0)
    except BaseException as e:  # noqa: BLE001
        out.case(("decorate", json.dumps(sig), fname, flavour), True, sample=rep)
        out.violation(f"decorate:{flavour}:{type(e).__name__}", f"decorating a {flavour} callable raised {type(e).__name__}: {e}", rep)
        return
    check_metadata(out, f, g, flavour, rep)
    kinds = {p["kind"] for p in sig}
    collide = any(p["name"] in ("T0", "default0", "ret0", "T1", "ret1", "default1", "T2", fname) for p in sig)
    for mode in ("good", "good", "bad-type", "bad-variadic", "nobind"):
        args, kwargs, planted = gen_call(rng, sig, mode, fname)
        if mode == "bad-variadic" and not planted:
            continue
        rec_f.calls.clear()
        rec_g.calls.clear()
        a = outcome(f, args, kwargs, is_async)
        b = outcome(g, args, kwargs, is_async)
        out.case((json.dumps(sig), fname, ck, flavour, mode, len(args), tuple(sorted(kwargs))), len(kinds) >= 2 or collide,
                 sample=dict(rep, mode=mode, nargs=len(args), kwargs=sorted(kwargs), plain=a, decorated=b))
        out.count(f"{mode}_{a[0]}_{b[0]}")
        r2 = dict(rep, mode=mode, nargs=len(args), kwargs=sorted(kwargs), plain=a, decorated=b)
        typed_ok = mode == "good" or flavour == "lambda"
        if a[0] == "raise" and a[1] == "TypeError" and not rec_f.calls:
            # does not bind: the decorated call must raise the ordinary TypeError, body not run
            if b != a or rec_g.calls:
                out.violation(f"nobind:{flavour}:{b[0]}", f"a call that does not bind gives {b} (body ran {len(rec_g.calls)}x) instead of the ordinary TypeError", r2)
            continue
        if mode == "nobind":
            continue  # the argument list happened to bind (e.g. swallowed by **kwargs): no claim
        if typed_ok:
            if b != a:
                key = f"welltyped:{flavour}{':retann' if annot_ret else ''}:{a[0]}->{b[0]}"
                out.violation(key, f"a well-typed call of the decorated {flavour} gives {b}, the original gives {a}", r2)
            elif len(rec_g.calls) != len(rec_f.calls):
                out.violation(f"callcount:{flavour}", f"the body ran {len(rec_g.calls)} times instead of {len(rec_f.calls)}", r2)
            elif ids(rec_g.calls) != ids(rec_f.calls):
                out.violation(f"argument-identity:{flavour}", "the body did not receive the very same argument objects", r2)
        else:
            # ill-typed: the body must not run at all
            if rec_g.calls and (b[0] == "tce" or planted):
                out.violation(f"illtyped-body-ran:{flavour}:{mode}", f"a call whose arguments violate the annotations ({mode}) ran the body {len(rec_g.calls)} times and ended as {b}", r2)


def call_shape_cases(out, ck):
    """the wrapped callable is called with the caller's own argument list: what was passed by keyword arrives by keyword,
    what was omitted is omitted (its default is the callee's business: it may have changed, the callee may be another
    wrapper such as jax.jit / vmap for which positions and omissions mean something), and a callable's name need not be
    a valid identifier"""
    import functools

    tc = CHECKERS[ck]
    seen = []

    def real(x: A, scale: A = DEF, *, flag: A = DEF) -> A:
        return RES

    @functools.wraps(real)
    def recording(*args, **kwargs):
        seen.append((tuple(id(a) for a in args), {k: id(v) for k, v in kwargs.items()}))
        return real(*args, **kwargs)

    g = jaxtyped(typechecker=tc)(recording)
    x, y, z = Duck((3,), "float32"), Duck((3,), "float32"), Duck((3,), "float32")
    for args, kwargs in (((x,), {}), ((x, y), {}), ((x,), {"scale": y}), ((), {"x": x}), ((), {"scale": y, "x": x, "flag": z}), ((x,), {"flag": z})):
        seen.clear()
        recording(*args, **kwargs)
        want = list(seen)
        seen.clear()
        try:
            g(*args, **kwargs)
        except BaseException as e:  # noqa: BLE001
            out.violation(f"call-shape:{type(e).__name__}", f"a well-typed call of a decorated functools.wraps wrapper raised {e!r}", {"call_shape": [len(args), sorted(kwargs)], "checker": ck})
            continue
        out.case(("call-shape", ck, len(args), tuple(sorted(kwargs))), True, sample={"positional": len(args), "keywords": sorted(kwargs)})
        if seen != want:
            out.violation("call-shape", f"called with {len(args)} positional and keywords {sorted(kwargs)}, the wrapped callable received {[(len(a), sorted(k)) for a, k in seen]} "
                          f"instead of {[(len(a), sorted(k)) for a, k in want]} (same objects: {seen == want})", {"call_shape": [len(args), sorted(kwargs)], "checker": ck})
    # a default rebound after decoration
    def later(x: A, y: A = DEF) -> A:
        return y

    h = jaxtyped(typechecker=tc)(later)
    new_default = Duck((3,), "float32")
    later.__defaults__ = (new_default,)
    out.case(("call-shape", ck, "rebound-default"), True)
    try:
        r1, r2 = later(x), h(x)
        if r2 is not r1:
            out.violation("call-shape:rebound-default", "after `fn.__defaults__` was rebound the original uses the new default, the decorated function the old one", {"call_shape": "rebound-default", "checker": ck})
    except BaseException as e:  # noqa: BLE001
        out.violation(f"call-shape:rebound-default:{type(e).__name__}", f"raised {e!r}", {"call_shape": "rebound-default", "checker": ck})
    # callables whose __name__ is not something `def` could be followed by (generated operator tables, RPC stubs, partials)
    if ck == "typeguard":   # beartype itself refuses such names
        for nm in ("and", "lambda", "None", "class", "in", "my-func", "2fast", "<stub>"):
            def stub(x: A) -> A:
                return RES
            stub.__name__ = nm
            stub.__qualname__ = nm
            out.case(("call-shape", ck, "name", nm), True, sample={"name": nm})
            try:
                gg = jaxtyped(typechecker=tc)(stub)
                r = gg(x)
                if r is not RES:
                    out.violation(f"odd-name:{nm}", f"a callable named {nm!r} returns something else when decorated", {"call_shape": "name:" + nm, "checker": ck})
            except BaseException as e:  # noqa: BLE001
                out.violation(f"odd-name:{type(e).__name__}", f"decorating / calling a callable whose __name__ is {nm!r} raised {e!r}", {"call_shape": "name:" + nm, "checker": ck})


def factory_and_strict_cases(out, ck):
    """(1) one `def` decorated several times (a function factory, a definition in a loop) with the same parameter
    annotations and different return annotations: every instance checks against ITS annotations; (2) a typechecker that
    enforces a constraint ACROSS parameters: when it rejects a call the body does not run, even though no single
    argument is wrong on its own"""
    import functools
    import inspect

    tc = CHECKERS[ck]
    runs = []

    def make(ret_ann, value):
        def convert(x: int) -> ret_ann:
            runs.append(ret_ann)
            return value
        return jaxtyped(typechecker=tc)(convert)

    insts = [(str, "s"), (float, 1.5), (complex, 1j), (int, 7), (str, "t")]
    fns = [make(a, v) for a, v in insts]
    for (ann, val), fn in zip(insts, fns):
        runs.clear()
        try:
            r = fn(3)
            ok = r is val and runs == [ann]
            got = ("ret", ok)
        except BaseException as e:  # noqa: BLE001
            got = ("raise", type(e).__name__)
        out.case(("factory", ck, ann.__name__), True, sample={"return_annotation": ann.__name__, "outcome": got})
        if got != ("ret", True):
            out.violation(f"factory:{ck}", f"the instance of a factory-made function annotated `-> {ann.__name__}` gives {got} on a well-typed call "
                          f"(earlier instances of the same def had other return annotations)", {"factory": ann.__name__, "checker": ck})
    if ck != "typeguard":
        return
    # a typechecker with a cross-parameter rule layered on typeguard: all parameters annotated `int | str` must get the same type
    def strict(fn):
        inner = typeguard.typechecked(fn)
        names = list(inspect.signature(fn).parameters)

        @functools.wraps(fn)
        def wrapper(*args, **kwargs):
            sig = inspect.signature(fn)
            bound = sig.bind(*args, **kwargs)
            # the rule only concerns parameters that ARE annotated `int | str` in the function it is applied to
            vals = [v for n_, v in bound.arguments.items() if sig.parameters[n_].annotation == typing.Union[int, str]]
            if len({type(v) for v in vals}) > 1:
                raise TypeError("p and q must have the same type")
            return inner(*args, **kwargs)
        return wrapper

    body = []

    @jaxtyped(typechecker=strict)
    def pair(p: typing.Union[int, str], q: typing.Union[int, str]):
        body.append((p, q))
        return "ran"

    for args, want in (((1, 2), "ran"), (("a", "b"), "ran"), ((1, "a"), "tce"), (("a", 1), "tce")):
        body.clear()
        try:
            got = pair(*args)
        except jaxtyping.TypeCheckError:
            got = "tce"
        except BaseException as e:  # noqa: BLE001
            got = "raise:" + type(e).__name__
        out.case(("strict-checker", args), True, sample={"args": repr(args), "outcome": got, "body_ran": len(body)})
        if got != want or (want == "tce" and body):
            out.violation("strict-checker", f"with a typechecker that rejects pair{args!r} (a rule across parameters) the decorated call gives {got!r} and the body ran "
                          f"{len(body)} time(s); must be {want!r}" + (" with the body not run" if want == "tce" else ""), {"strict": repr(args)})


class Node:
    """module-level class named in quoted annotations below"""

    def __init__(self, v=0):
        self.v = v


_FWD_RUNS = []


def _fwd_plain(x: "Node", n: int) -> "Node":
    _FWD_RUNS.append("plain")
    return x


def _fwd_optional(x: typing.Optional["Node"], n: int) -> typing.Optional["Node"]:
    _FWD_RUNS.append("optional")
    return x


def _fwd_list(xs: typing.List["Node"], n: int) -> "typing.List[Node]":
    _FWD_RUNS.append("list")
    return xs


def _fwd_dict(m: typing.Dict[str, "Node"], n: int) -> typing.Tuple["Node", int]:
    _FWD_RUNS.append("dict")
    return _FWD_RESULT[0]


def _fwd_whole(x: "typing.Optional[Node]", n: "int") -> "typing.Union[Node, None]":
    _FWD_RUNS.append("whole")
    return x


_FWD_RESULT = [None]


def string_annotation_cases(out, ck):
    """quoted class names at the top of an annotation and nested inside generics (`Optional["Node"]`, `List["Node"]`,
    `Dict[str, "Node"]`), for a class of the function's own module: a well-typed call runs the body once and hands the
    result through, an ill-typed one does not run it"""
    tc = CHECKERS[ck]
    node = Node(1)
    _FWD_RESULT[0] = (node, 3)
    table = [
        (_fwd_plain, (node, 1), node, ("not a node", 1)),
        (_fwd_optional, (node, 1), node, ("not a node", 1)),
        (_fwd_optional, (None, 1), None, (3.5, 1)),
        (_fwd_list, ([node, node], 1), None, ([node, "x"], 1)),
        (_fwd_dict, ({"k": node}, 1), _FWD_RESULT[0], ({"k": 2}, 1)),
        (_fwd_whole, (node, 1), node, (node, "one")),
    ]
    for fn0, good, want, bad in table:
        if ck == "beartype" and isinstance(bad[0], (list, dict)):
            # beartype samples ONE item of a container per call: an ill-typed item may go unnoticed; use a value that is
            # wrong at the top level instead
            bad = (3.5,) + tuple(bad[1:])
        try:
            g = jaxtyped(typechecker=tc)(fn0)
        except BaseException as e:  # noqa: BLE001
            out.case(("fwd-decorate", fn0.__name__, ck), True, sample={"fn": fn0.__name__})
            out.violation(f"forward-ref:decorate:{ck}", f"decorating {fn0.__name__} (quoted annotations naming a class of its module) raised {type(e).__name__}: {e}", {"forward": fn0.__name__, "checker": ck})
            continue
        _FWD_RUNS.clear()
        try:
            r = g(*good)
            got = ("ret", (r is want or (want is None and r is good[0])) and len(_FWD_RUNS) == 1)
        except BaseException as e:  # noqa: BLE001
            got = ("raise", type(e).__name__ + ": " + str(e)[:160].replace("\n", " "))
        out.case(("fwd", fn0.__name__, ck, repr(good)[:40]), True, sample={"fn": fn0.__name__, "outcome": repr(got)[:200], "runs": len(_FWD_RUNS)})
        if got != ("ret", True):
            out.violation(f"forward-ref:well-typed:{ck}", f"{fn0.__name__}{inspect.signature(fn0)} called with well-typed arguments gives {got}, body ran {len(_FWD_RUNS)}x; "
                          f"must run once and return the very result", {"forward": fn0.__name__, "checker": ck})
            continue
        _FWD_RUNS.clear()
        try:
            g(*bad)
            got = "returned"
        except TypeCheckError:
            got = "tce"
        except BaseException as e:  # noqa: BLE001
            got = "raise:" + type(e).__name__
        out.case(("fwd-bad", fn0.__name__, ck), True, sample={"fn": fn0.__name__, "outcome": got, "runs": len(_FWD_RUNS)})
        if got != "tce" or _FWD_RUNS:
            out.violation(f"forward-ref:ill-typed:{ck}", f"{fn0.__name__} called with an argument violating its (quoted) annotation gives {got}, body ran {len(_FWD_RUNS)}x; "
                          f"must be a TypeCheckError with the body not run", {"forward": fn0.__name__, "checker": ck})


def stacked_decorator_cases(out, ck):
    """`jaxtyped(typechecker=tc)` applied to something that is already a jaxtyped wrapper without a typechecker inside
    (`jaxtyped(typechecker=None)(f)`: context only; bare `jaxtyped(f)`): the outer decoration still checks"""
    tc = CHECKERS[ck]
    runs = []

    def mk():
        def f(x: Float[Duck, "a"], /, y: Float[Duck, "a"], *rest: int, k: int = 0, **kw: str) -> Float[Duck, "a"]:
            runs.append(1)
            return x
        return f

    import warnings

    layers = {
        "typechecker=None": lambda f: jaxtyped(typechecker=None)(f),
        "bare jaxtyped": lambda f: jaxtyped(f),
        "typechecker=None twice": lambda f: jaxtyped(typechecker=None)(jaxtyped(typechecker=None)(f)),
    }
    a3, a4 = Duck((3,), "float32"), Duck((4,), "float32")
    for lname, layer in layers.items():
        with warnings.catch_warnings():
            warnings.simplefilter("ignore")
            try:
                g = jaxtyped(typechecker=tc)(layer(mk()))
            except BaseException as e:  # noqa: BLE001
                out.case(("stacked-decorate", lname, ck), True, sample={"layer": lname})
                out.violation(f"stacked:decorate:{ck}", f"decorating a function already wrapped by {lname} raised {type(e).__name__}: {e}", {"stacked": lname, "checker": ck})
                continue
        for args, kwargs, want in (((a3, a3), {}, "ret"), ((a3, a3, 1, 2), {"k": 5, "z": "s"}, "ret"), ((a3, a4), {}, "tce"), ((a3, a3, "no"), {}, "tce"), ((a3, a3), {"k": "no"}, "tce"), ((a3,), {}, "TypeError")):
            runs.clear()
            try:
                r = g(*args, **kwargs)
                got = "ret" if r is args[0] else "ret-other"
            except TypeCheckError:
                got = "tce"
            except BaseException as e:  # noqa: BLE001
                got = type(e).__name__
            out.case(("stacked", lname, ck, len(args), tuple(sorted(kwargs)), want), True, sample={"layer": lname, "outcome": got, "runs": len(runs)})
            ok = got == want and len(runs) == (1 if want == "ret" else 0)
            if not ok:
                out.violation(f"stacked:{ck}:{want}->{got}", f"jaxtyped(typechecker={ck}) over a function already wrapped by {lname}: a call that must end as {want} "
                              f"(body {'once' if want == 'ret' else 'not run'}) ends as {got} with the body run {len(runs)}x", {"stacked": lname, "checker": ck})


def descriptor_cases(out, ck):
    tc = CHECKERS[ck]
    deco = jaxtyped(typechecker=tc)
    rec = Recorder()

    class P:
        def m(self, x: A) -> A:
            rec.calls.append(("m", id(self), id(x)))
            return RES

        @classmethod
        def cm(cls, x: A) -> A:
            rec.calls.append(("cm", cls, id(x)))
            return RES

        @staticmethod
        def sm(x: A) -> A:
            rec.calls.append(("sm", id(x)))
            return RES

        @property
        def prop(self) -> A:
            rec.calls.append(("prop", id(self)))
            return RES

    class D:
        m = deco(P.__dict__["m"])
        cm = deco(P.__dict__["cm"])
        sm = deco(P.__dict__["sm"])
        prop = deco(P.__dict__["prop"])

    for nm, typ in (("m", type(P.__dict__["m"])), ("cm", classmethod), ("sm", staticmethod), ("prop", property)):
        out.case(("descriptor", ck, nm), True, sample={"descriptor": nm, "checker": ck})
        if not isinstance(D.__dict__[nm], typ):
            out.violation(f"descriptor-kind:{nm}", f"{nm} became {type(D.__dict__[nm]).__name__}", {"member": nm})
    x = Duck((3,), "float32")
    d = D()
    for call, want_tag in ((lambda: d.m(x), "m"), (lambda: D.cm(x), "cm"), (lambda: d.cm(x), "cm"), (lambda: D.sm(x), "sm"), (lambda: d.sm(x), "sm"), (lambda: d.prop, "prop")):
        rec.calls.clear()
        try:
            r = call()
        except BaseException as e:  # noqa: BLE001
            out.violation(f"descriptor-call:{want_tag}:{type(e).__name__}", f"well-typed use of decorated {want_tag} raised {e!r}", {"member": want_tag})
            continue
        if r is not RES or len(rec.calls) != 1 or rec.calls[0][0] != want_tag:
            out.violation(f"descriptor-call:{want_tag}", f"decorated {want_tag}: result identical={r is RES}, body calls={rec.calls}", {"member": want_tag})
        if want_tag == "cm" and rec.calls and rec.calls[0][1] is not D:
            out.violation("descriptor-call:cm:cls", "classmethod received the wrong class", {"member": "cm"})
    for nm in ("m", "cm", "sm"):
        check_metadata(out, getattr(P, nm), getattr(D, nm), "descriptor-" + nm, {"member": nm})
    bad = Duck((3, 3), "float32")
    for call in (lambda: d.m(bad), lambda: D.cm(bad), lambda: D.sm(bad)):
        rec.calls.clear()
        try:
            call()
            out.violation("descriptor-illtyped-accepted", "ill-typed call through a decorated descriptor was accepted", {})
        except TypeCheckError:
            if rec.calls:
                out.violation("descriptor-illtyped-body-ran", "ill-typed call ran the body", {})


def internal_names():
    """every identifier the wrapper machinery of `_decorator.py` itself uses as a parameter or local name today (read from
    the source, so a renamed or newly introduced one is picked up), plus the names the synthesised checkers are built from"""
    import ast
    import keyword

    with open(os.path.join(REPO, "jaxtyping", "_decorator.py")) as fh:
        tree = ast.parse(fh.read())
    names = set()
    for fn in ast.walk(tree):
        if isinstance(fn, (ast.FunctionDef, ast.AsyncFunctionDef, ast.Lambda)):
            a = fn.args
            names.update(x.arg for x in a.posonlyargs + a.args + a.kwonlyargs)
            names.update(x.arg for x in (a.vararg, a.kwarg) if x is not None)
            if not isinstance(fn, ast.Lambda):
                names.update(n.id for n in ast.walk(fn) if isinstance(n, ast.Name) and isinstance(n.ctx, ast.Store))
    names |= {"T0", "default0", "ret0", "fn0", "T1", "ret1"}
    return sorted(n for n in names if n.isidentifier() and not keyword.iskeyword(n) and not n.startswith("__"))


def internal_name_cases(out, ck):
    """a user's parameter may be called anything — in particular what the wrapper's own frames call THEIR parameters and
    locals: passed positionally, by keyword, and swallowed by `**kwargs`, the decorated function sees the same argument
    objects, runs once and hands back the body's own result"""
    tc = CHECKERS[ck]
    for nm in internal_names():
        seen = []
        ns = {"seen": seen}
        try:
            exec(f"def f({nm}: int, other: int = 0) -> tuple:\n    seen.append(({nm}, other))\n    return ({nm}, other)\n"
                 f"def k(*, {nm}: int = 5) -> int:\n    seen.append(({nm},))\n    return {nm}\n"
                 f"def g(**kw: int) -> dict:\n    seen.append(dict(kw))\n    return kw\n", ns)
        except SyntaxError:
            continue
        try:
            F, K, G = jaxtyped(typechecker=tc)(ns["f"]), jaxtyped(typechecker=tc)(ns["k"]), jaxtyped(typechecker=tc)(ns["g"])
        except BaseException as e:  # noqa: BLE001
            out.violation(f"internal-name:decorate:{nm}", f"decorating a function whose parameter is called `{nm}` raised {type(e).__name__}: {e}", {"internal_name": nm, "checker": ck})
            continue
        calls = [("positional", lambda: F(3), (3, 0)), ("keyword", lambda: F(**{nm: 3}), (3, 0)), ("keyword+other", lambda: F(**{nm: 3, "other": 4}), (3, 4)),
                 ("keyword-only", lambda: K(**{nm: 7}), 7), ("keyword-only default", lambda: K(), 5), ("**kwargs", lambda: G(**{nm: 1, "z": 2}), {nm: 1, "z": 2})]
        for cname, thunk, want in calls:
            seen.clear()
            try:
                got = thunk()
            except BaseException as e:  # noqa: BLE001
                got = f"raised {type(e).__name__}: {e}"[:160]
            out.case(("internal-name", ck, nm, cname), True, sample={"name": nm, "call": cname, "result": repr(got)[:80]})
            if got != want or len(seen) != 1:
                out.violation(f"internal-name:{cname}", f"a well-typed call ({cname}) of a function whose parameter is called `{nm}` ({ck}): result {got!r}, body ran {len(seen)} time(s); "
                              f"the plain function gives {want!r} and runs once", {"internal_name": nm, "checker": ck})
                break


def property_accessor_cases(out, ck):
    """`jaxtyped` applied to a property OBJECT with every combination of getter / setter / deleter (a gap included:
    getter + deleter, setter only, …): each accessor stays in its own slot, runs once with the same objects, and the
    accessors that were absent stay absent"""
    import itertools

    tc = CHECKERS[ck]
    x_ok, x_bad = Duck((3,), "float32"), Duck((3, 3), "float32")
    for has in itertools.product((False, True), repeat=3):
        if not any(has):
            continue
        log = []

        def fget(self) -> A:
            log.append("get")
            return RES

        def fset(self, v: A):
            log.append(("set", id(v)))

        def fdel(self):
            log.append("del")

        plain = property(fget if has[0] else None, fset if has[1] else None, fdel if has[2] else None, "doc")
        for dname, deco in (("typechecker=" + ck, jaxtyped(typechecker=tc)), ("typechecker=None", jaxtyped(typechecker=None))):
            try:
                dec = deco(property(fget if has[0] else None, fset if has[1] else None, fdel if has[2] else None, "doc"))
            except BaseException as e:  # noqa: BLE001
                out.violation(f"property:decorate:{has}", f"decorating a property with accessors (get, set, del) = {has} raised {type(e).__name__}: {e}", {"property_accessors": list(has)})
                continue

            def observe(prop):
                C = type("C", (), {"p": prop})
                o = C()
                res = []
                for op in ("get", "set", "del"):
                    log.clear()
                    try:
                        if op == "get":
                            r = o.p is RES
                        elif op == "set":
                            o.p = x_ok
                            r = True
                        else:
                            del o.p
                            r = True
                        res.append((op, "ok", r, list(log)))
                    except BaseException as e:  # noqa: BLE001
                        res.append((op, type(e).__name__, None, list(log)))
                return res

            a, b = observe(plain), observe(dec)
            shape = (isinstance(dec, property), dec.fget is not None, dec.fset is not None, dec.fdel is not None)
            out.case(("property", ck, dname, has), True, sample={"accessors": list(has), "decorator": dname, "plain": str(a)[:200], "decorated": str(b)[:200]})
            if shape != (True,) + tuple(has):
                out.violation(f"property:slots:{has}", f"a property with (get, set, del) = {has} decorated with {dname} has (is property, get, set, del) = {shape}", {"property_accessors": list(has)})
            elif a != b:
                out.violation(f"property:behaviour:{has}", f"a property with (get, set, del) = {has} decorated with {dname}: get / set / delete give {b}, the undecorated one {a}", {"property_accessors": list(has)})
            elif has[1] and dname != "typechecker=None":
                # an ill-typed value through the setter: rejected, body not run
                C = type("C", (), {"p": dec})
                log.clear()
                try:
                    C().p = x_bad
                    got = "accepted"
                except TypeCheckError:
                    got = "tce"
                except BaseException as e:  # noqa: BLE001
                    got = type(e).__name__
                if got != "tce" or log:
                    out.violation(f"property:setter-illtyped:{has}", f"an ill-typed value through the decorated setter gives {got}, body ran {log}", {"property_accessors": list(has)})


def run(tier, seed, out, drv, facts):
    import warnings

    # known finding F4 leaves un-awaited coroutines behind (the wrapper checks the coroutine object): not our noise
    warnings.filterwarnings("ignore", category=RuntimeWarning, message="coroutine .* was never awaited")
    rng = Rng(seed, "C07")
    thorough = tier == "thorough"
    n = 30000 if thorough else 250
    for ck in CHECKERS:
        descriptor_cases(out, ck)
        call_shape_cases(out, ck)
        factory_and_strict_cases(out, ck)
        string_annotation_cases(out, ck)
        stacked_decorator_cases(out, ck)
        property_accessor_cases(out, ck)
        internal_name_cases(out, ck)
    for i in range(n):
        sig = gen_sig(rng)
        fname = rng.choice(["fn", "fn", "T0", "ret0", "default0", sig[0]["name"]])
        flavour = rng.choice(["def", "def", "def", "lambda", "async"])
        ck = "beartype" if i % 3 == 2 else "typeguard"
        run_sig(out, drv, rng, sig, fname, ck, flavour)
        if i % 2 == 0:
            scope_correspondence(out, drv, sig, fname)


def replay(rep, out, drv, facts):
    if "internal_name" in rep:
        internal_name_cases(out, rep["checker"])
        return
    if "signature" in rep:
        run_sig(out, drv, Rng(0, "replay"), rep["signature"], rep["function_name"], rep["checker"], rep["callable"])
    else:
        for ck in CHECKERS:
            descriptor_cases(out, ck)
            call_shape_cases(out, ck)
            factory_and_strict_cases(out, ck)
            string_annotation_cases(out, ck)
            stacked_decorator_cases(out, ck)
            property_accessor_cases(out, ck)
