/-
Model of the bytecode cache as the import hook uses it (jaxtyping/_import_hook.py:
`_optimized_cache_from_source`, `_JaxtypingLoader`): a history of interpreter runs over one
cache directory.
-/
namespace JV

/-- what a piece of (cached or fresh) code is: compiled from which source version, instrumented
    with which typechecker key (none = plain) -/
structure CodeDesc where
  version : Nat
  instr : Option String
  deriving DecidableEq, Repr

/-- cache tags: the interpreter's default tag, or the hook's tag carrying the typechecker key -/
inductive Tag
  | default
  | jaxtyping (key : String)
  deriving DecidableEq, Repr

/-- cache entries: (module, tag) ↦ (source version the entry was written for, code) -/
abbrev Cache := List ((String × Tag) × (Nat × CodeDesc))

/-- where the `patch(cache_from_source)` is in force -/
inductive PatchScope
  | getCode        -- only while locating / writing the module's own bytecode
  | execModule     -- during the whole execution of the hooked module, nested imports included
  | getCodeIfWriting  -- like `getCode`, but skipped in a run that writes no bytecode (`-B`)
  deriving DecidableEq, Repr

/-- one module load inside a run -/
structure Load where
  name : String
  hookedWith : Option String        -- the typechecker key if this module is hooked in this run
  /-- the load happens while a hooked module (with this key) is executing, i.e. it is imported
      from inside that module's top level -/
  insideHooked : Option String
  deriving Repr

def cacheLookup (c : Cache) (k : String × Tag) : Option (Nat × CodeDesc) := c.lookup k

def cacheStore (c : Cache) (k : String × Tag) (v : Nat × CodeDesc) : Cache :=
  (k, v) :: c.filter (fun e => e.1 != k)

/-- the tag under which `SourceLoader.get_code` looks for / writes the bytecode of this load;
    `writes` = the run writes bytecode (no `-B` / `PYTHONDONTWRITEBYTECODE` / `sys.dont_write_bytecode`) -/
def tagFor (scope : PatchScope) (writes : Bool) (l : Load) : Tag :=
  match l.hookedWith with
  | some key =>
    (match scope, writes with
     | .getCodeIfWriting, false => .default   -- the patch is skipped: the interpreter's own name
     | _, _ => .jaxtyping key)                -- own patch
  | none =>
    match scope, l.insideHooked with
    | .execModule, some outerKey => .jaxtyping outerKey   -- the enclosing module's patch is still active
    | _, _ => .default

/-- `get_code`: reuse the cached code if it was written for the current source version (a run that
    writes no bytecode still READS it), otherwise compile (instrumenting iff hooked) and, in a writing
    run, store. Returns the code executed. -/
def loadModule (scope : PatchScope) (writes : Bool) (version : Nat) (c : Cache) (l : Load) : Cache × CodeDesc :=
  let tag := tagFor scope writes l
  let code' : CodeDesc := { version := version, instr := l.hookedWith }
  let c' := if writes then cacheStore c (l.name, tag) (version, code') else c
  match cacheLookup c (l.name, tag) with
  | some (v, code) => if v = version then (c, code) else (c', code')
  | none => (c', code')

/-- a run: loads in import order, each with the current source version of its module -/
def runLoads (scope : PatchScope) (writes : Bool) (versions : String → Nat) : Cache → List Load → Cache × List (String × CodeDesc)
  | c, [] => (c, [])
  | c, l :: ls =>
    let (c1, code) := loadModule scope writes (versions l.name) c l
    let (c2, rest) := runLoads scope writes versions c1 ls
    (c2, (l.name, code) :: rest)

/-- one interpreter run: the source versions it sees (edits in between), whether it writes
    bytecode, and its loads in import order -/
structure CacheRun where
  versions : String → Nat
  writes : Bool := true
  loads : List Load

/-- a history of runs over one cache directory -/
def runHistory (scope : PatchScope) : Cache → List CacheRun → Cache × List (List (String × CodeDesc))
  | c, [] => (c, [])
  | c, r :: rs =>
    let (c1, o) := runLoads scope r.writes r.versions c r.loads
    let (c2, os) := runHistory scope c1 rs
    (c2, o :: os)

end JV
