/-
Helper lemmas for C04: a failed or raising check binds nothing; a passing check is idempotent.
Core Lean only.
-/
import JaxVerif.Lemmas.Array
import JaxVerif.Model.Call

/-! ### decidable equality of memos

`Def` and `Memo` derive only `Repr` in the model; the `by decide` non-vacuity examples of
Properties/C04.lean compare `Verdict × Memo` values, so decidable equality is supplied here (in a
sub-namespace, so the names cannot clash with instances derived in the model later). -/
namespace JV.Rollback

mutual
theorem beq_eq : ∀ a b : Def, Def.beq a b = true → a = b
  | .leaf, .leaf, _ => rfl
  | .leaf, .node _ _, h => by simp [Def.beq] at h
  | .node _ _, .leaf, h => by simp [Def.beq] at h
  | .node k cs, .node k' cs', h => by
    simp only [Def.beq, Bool.and_eq_true, beq_iff_eq] at h
    rw [h.1, beqList_eq cs cs' h.2]
theorem beqList_eq : ∀ as bs : List Def, Def.beqList as bs = true → as = bs
  | [], [], _ => rfl
  | [], _ :: _, h => by simp [Def.beqList] at h
  | _ :: _, [], h => by simp [Def.beqList] at h
  | a :: as, b :: bs, h => by
    simp only [Def.beqList, Bool.and_eq_true] at h
    rw [beq_eq a b h.1, beqList_eq as bs h.2]
end

mutual
theorem beq_refl : ∀ a : Def, Def.beq a a = true
  | .leaf => rfl
  | .node k cs => by simp only [Def.beq, beq_self_eq_true, beqList_refl cs, Bool.and_self]
theorem beqList_refl : ∀ as : List Def, Def.beqList as as = true
  | [] => rfl
  | a :: as => by simp only [Def.beqList, beq_refl a, beqList_refl as, Bool.and_self]
end

/-- `Def` derives only `Repr` in Model/Tree.lean; the `by decide` non-vacuity examples of
    Properties/C04.lean compare `Memo` values, which hold structure definitions -/
instance instDecidableEqDef : DecidableEq Def := fun a b =>
  if h : Def.beq a b = true then isTrue (beq_eq a b h)
  else isFalse (fun e => h (e ▸ beq_refl a))

deriving instance DecidableEq for JV.Memo
end JV.Rollback

namespace JV

/-! ### the three ways `__instancecheck_str__` can end -/

/-- either the memo is handed back untouched, or the shape walk accepted and its bindings were
    committed, or user code raised an exception the handler does not cover -/
theorem instancecheck_cases (c : Catch) (fl : Bool) (tp : TreePath) (a : Ann) (o : ArrObj)
    (m : Memo) :
    ((instancecheck c fl tp a o m).2 = m) ∨
    (∃ σ ν, instancecheck c fl tp a o m = (.T, { m with single := σ, variadic := ν }) ∧
      a.transparent = false ∧ o.isInst = true ∧ fl = false ∧ a.dtypes.accepts o.dtype = true ∧
      checkShape tp m.args a.shape o.shape m.single m.variadic = .ok (σ, ν)) ∨
    (∃ e σ ν, instancecheck c fl tp a o m = (.EXC e, { m with single := σ, variadic := ν }) ∧
      c.covers e = false) := by
  unfold instancecheck
  split
  · exact Or.inl rfl
  · next ht =>
    split
    · exact Or.inl rfl
    · next hi =>
      split
      · exact Or.inl rfl
      · next hf =>
        split
        · exact Or.inl rfl
        · next hd =>
          split
          · next σ ν hc =>
            refine Or.inr (Or.inl ⟨σ, ν, rfl, ?_, ?_, ?_, ?_, hc⟩)
            · simpa using ht
            · simpa using hi
            · simpa using hf
            · simpa using hd
          · exact Or.inl rfl
          · exact Or.inl rfl
          · next e σ ν hc =>
            split
            · exact Or.inl rfl
            · next hcov =>
              exact Or.inr (Or.inr ⟨e, σ, ν, rfl, by simpa using hcov⟩)

theorem instancecheck_fail_restores (c : Catch) (fl : Bool) (tp : TreePath) (a : Ann) (o : ArrObj)
    (m : Memo) (h : (instancecheck c fl tp a o m).1 = .F ∨ (instancecheck c fl tp a o m).1 = .ANN) :
    (instancecheck c fl tp a o m).2 = m := by
  rcases instancecheck_cases c fl tp a o m with h0 | ⟨σ, ν, h1, _⟩ | ⟨e, σ, ν, h1, _⟩
  · exact h0
  · rw [h1] at h; rcases h with h | h <;> cases h
  · rw [h1] at h; rcases h with h | h <;> cases h

theorem instancecheck_exc_restores (c : Catch) (fl : Bool) (tp : TreePath) (a : Ann) (o : ArrObj)
    (m : Memo) (e : Exc) (h : (instancecheck c fl tp a o m).1 = .EXC e) (hc : c.covers e = true) :
    (instancecheck c fl tp a o m).2 = m := by
  rcases instancecheck_cases c fl tp a o m with h0 | ⟨σ, ν, h1, _⟩ | ⟨e', σ, ν, h1, hcov⟩
  · exact h0
  · rw [h1] at h; cases h
  · rw [h1] at h
    simp only [Verdict.EXC.injEq] at h
    subst h
    rw [hc] at hcov; cases hcov

theorem covers_base (e : Exc) : Catch.baseException.covers e = true := rfl

theorem instancecheck_base_restores (fl : Bool) (tp : TreePath) (a : Ann) (o : ArrObj) (m : Memo)
    (h : (instancecheck .baseException fl tp a o m).1 ≠ .T) :
    (instancecheck .baseException fl tp a o m).2 = m := by
  rcases instancecheck_cases .baseException fl tp a o m with h0 | ⟨σ, ν, h1, _⟩ | ⟨e, σ, ν, _, hcov⟩
  · exact h0
  · rw [h1] at h; exact absurd rfl h
  · rw [covers_base] at hcov; cases hcov

/-! ### symbolic evaluation is monotone in the memo -/

/-- lookup-wise extension of single-axis memos -/
def SubSingle (σ τ : Single) : Prop := ∀ k n, σ.lookup k = some n → τ.lookup k = some n

theorem SubSingle.refl (σ : Single) : SubSingle σ σ := fun _ _ h => h

theorem SubSingle.trans {σ τ υ : Single} (h1 : SubSingle σ τ) (h2 : SubSingle τ υ) :
    SubSingle σ υ := fun k n h => h2 k n (h1 k n h)

theorem evalCore_mono_agree (args : Args) (σ τ : Single) (h : SubSingle σ τ) :
    ∀ e : Expr, e.evalCore args σ = .annErr ∨ e.evalCore args σ = e.evalCore args τ
  | .lit n => Or.inr rfl
  | .var x => by
    simp only [Expr.evalCore]
    cases hx : σ.lookup (.plain x) with
    | none => left; rfl
    | some n => right; rw [h _ _ hx]
  | .hole x => Or.inr rfl
  | .neg a => by
    simp only [Expr.evalCore]
    exact bind1_agree _ _ _ (evalCore_mono_agree args σ τ h a)
  | .add a b => by
    simp only [Expr.evalCore]
    exact bind2_agree _ _ _ _ _ (evalCore_mono_agree args σ τ h a) (evalCore_mono_agree args σ τ h b)
  | .sub a b => by
    simp only [Expr.evalCore]
    exact bind2_agree _ _ _ _ _ (evalCore_mono_agree args σ τ h a) (evalCore_mono_agree args σ τ h b)
  | .mul a b => by
    simp only [Expr.evalCore]
    exact bind2_agree _ _ _ _ _ (evalCore_mono_agree args σ τ h a) (evalCore_mono_agree args σ τ h b)
  | .fdiv a b => by
    simp only [Expr.evalCore]
    exact bind2_agree _ _ _ _ _ (evalCore_mono_agree args σ τ h a) (evalCore_mono_agree args σ τ h b)

theorem eval_mono_agree (args : Args) (σ τ : Single) (h : SubSingle σ τ) (e : Expr) :
    e.eval args σ = .annErr ∨ e.eval args σ = e.eval args τ := by
  unfold Expr.eval
  cases holesPass args e.holes with
  | ok _ => exact evalCore_mono_agree args σ τ h e
  | fail => right; rfl
  | annErr => left; rfl
  | exc x => right; rfl

theorem eval_mono (args : Args) (σ τ : Single) (h : SubSingle σ τ) (e : Expr) (v : Int)
    (hv : e.eval args σ = .ok v) : e.eval args τ = .ok v := by
  rcases eval_mono_agree args σ τ h e with h1 | h1
  · rw [h1] at hv; cases hv
  · rw [← h1]; exact hv

/-! ### stability of the walk: re-running an accepted walk from a larger memo changes nothing -/

theorem checkDim_stable (tp : TreePath) (args : Args) (σ σ1 τ : Single) (d : Dim) (n : Nat)
    (hd : checkDim tp args σ d n = .ok σ1) (hτ : SubSingle σ1 τ) :
    checkDim tp args τ d n = .ok τ := by
  cases d with
  | anon => rfl
  | fixed k b =>
    by_cases hb : b = true ∧ n = 1
    · exact checkDim_skip tp args τ _ n hb
    · rw [checkDim_fixed tp args σ k b n hb] at hd
      rw [checkDim_fixed tp args τ k b n hb]
      split at hd
      · next hk => rw [if_pos hk]
      · cases hd
  | sym e b =>
    by_cases hb : b = true ∧ n = 1
    · exact checkDim_skip tp args τ _ n hb
    · rw [checkDim_sym tp args σ e b n hb] at hd
      rw [checkDim_sym tp args τ e b n hb]
      split at hd
      · next v hv =>
        split at hd
        · next hvn =>
          cases hd
          rw [eval_mono args σ τ hτ e v hv]
          simp only [hvn, if_true]
        · cases hd
      · cases hd
      · cases hd
      · cases hd
  | named x b t =>
    by_cases hb : b = true ∧ n = 1
    · exact checkDim_skip tp args τ _ n hb
    · rcases keyOf_cases tp x t with ⟨key, hk⟩ | ⟨hk, _, _⟩
      · rw [checkDim_named_ok tp args σ x b t n key hb hk] at hd
        rw [checkDim_named_ok tp args τ x b t n key hb hk]
        split at hd
        · cases hd
          have : τ.lookup key = some n := hτ key n (by rw [lookup_cons_eq, if_pos rfl])
          simp only [this, if_true]
        · next m hm =>
          split at hd
          · next hmn =>
            cases hd
            have : τ.lookup key = some n := by rw [← hmn]; exact hτ key m hm
            simp only [this, if_true]
          · cases hd
      · rw [checkDim_named_ann tp args σ x b t n hb hk] at hd; cases hd

theorem checkDims_stable (tp : TreePath) (args : Args) (σ σ' τ : Single) (l : List (Dim × Nat))
    (h : checkDims tp args σ l = .ok σ') (hτ : SubSingle σ' τ) :
    checkDims tp args τ l = .ok τ := by
  induction l generalizing σ with
  | nil => rfl
  | cons p rest ih =>
    obtain ⟨d, n⟩ := p
    cases hd : checkDim tp args σ d n with
    | fail => simp [checkDims, hd] at h
    | annErr => simp [checkDims, hd] at h
    | exc e lk => simp [checkDims, hd] at h
    | ok σ1 =>
      rw [checkDims_cons_ok tp args σ σ1 d n rest hd] at h
      have hmono : SubSingle σ1 σ' := (checkDims_sound tp args σ1 σ' rest h).1
      rw [checkDims_cons_ok tp args τ τ d n rest
        (checkDim_stable tp args σ σ1 τ d n hd (hmono.trans hτ))]
      exact ih σ1 h

/-! ### idempotence of the `*name` branch -/

theorem bcast_self (n : List Nat) : bcast n n = some n := bt_refl n

theorem vstep_idem (prev : Option (Bool × List Nat)) (b : Bool) (n : List Nat)
    (st : Bool × List Nat) (h : vstep prev b n = some st) : vstep (some st) b n = some st := by
  match prev, b with
  | none, true =>
    simp only [vstep, Option.some.injEq] at h; subst h
    simp [vstep, bcast_self]
  | none, false =>
    simp only [vstep, Option.some.injEq] at h; subst h
    simp [vstep]
  | some (true, s), b =>
    simp only [vstep] at h
    cases hj : bcast n s with
    | none => simp [hj] at h
    | some j =>
      simp only [hj] at h
      have hnj : bcast n j = some j := (bcast_upper n s j hj).1
      cases b with
      | true =>
        simp at h; subst h
        simp [vstep, hnj]
      | false =>
        simp at h
        obtain ⟨hjn, rfl⟩ := h
        subst hjn
        simp [vstep]
  | some (false, s), true =>
    simp only [vstep] at h
    cases hj : bcast n s with
    | none => simp [hj] at h
    | some j =>
      simp [hj] at h
      obtain ⟨rfl, rfl⟩ := h
      simp [vstep, hj]
  | some (false, s), false =>
    simp [vstep] at h
    obtain ⟨rfl, rfl⟩ := h
    simp [vstep]

theorem setVar_setVar (k : Key) (v : Bool × List Nat) : ∀ ν : Variadic,
    setVar k v (setVar k v ν) = setVar k v ν
  | [] => by simp [setVar]
  | (k0, v0) :: rest => by
    by_cases h0 : k0 = k
    · subst h0; simp [setVar]
    · simp only [setVar, h0, if_false, setVar_setVar k v rest]

/-! ### idempotence of `_check_shape` and of `__instancecheck_str__` -/

theorem checkShape_idem (tp : TreePath) (args : Args) (sh : Shape) (shape : List Nat)
    (σ σ' : Single) (ν ν' : Variadic) (h : checkShape tp args sh shape σ ν = .ok (σ', ν')) :
    checkShape tp args sh shape σ' ν' = .ok (σ', ν') := by
  obtain ⟨pre, var⟩ := sh
  cases var with
  | none =>
    simp only [checkShape] at h ⊢
    split at h
    · cases h
    · next hlen =>
      have hlen2 : (shape.length != pre.length) = false := by simpa using hlen
      simp only [hlen2, Bool.false_eq_true, if_false]
      cases hc : checkDims tp args σ (pre.zip shape) with
      | fail => simp [hc] at h
      | annErr => simp [hc] at h
      | exc e l => simp [hc] at h
      | ok σ1 =>
        simp only [hc, Walk.ok.injEq, Prod.mk.injEq] at h
        obtain ⟨rfl, rfl⟩ := h
        rw [checkDims_stable tp args σ σ1 σ1 _ hc (SubSingle.refl _)]
  | some vs =>
    obtain ⟨v, suf⟩ := vs
    obtain ⟨hlen, σ1, hc1, hc2, hvar⟩ := checkShape_some_ok tp args pre v suf shape σ σ' ν ν' h
    have hmono : SubSingle σ1 σ' := (checkDims_sound tp args σ1 σ' _ hc2).1
    have hs1 := checkDims_stable tp args σ σ1 σ' _ hc1 hmono
    have hs2 := checkDims_stable tp args σ1 σ' σ' _ hc2 (SubSingle.refl _)
    have hlen' : ¬ shape.length < pre.length + suf.length := by omega
    simp only [checkShape, hlen', if_false, hs1, hs2]
    cases v with
    | anonVar =>
      have : ν' = ν := hvar
      rw [this]
    | namedVar x b t =>
      obtain ⟨key, st, hk, hv, hνeq⟩ := hvar
      subst hνeq
      have hl : (setVar key st ν).lookup key = some st := by rw [lookup_setVar, if_pos rfl]
      simp only [hk, hl, vstep_idem _ b _ st hv, setVar_setVar]

theorem instancecheck_idempotent (c : Catch) (tp : TreePath) (a : Ann) (o : ArrObj) (m m' : Memo)
    (h : instancecheck c false tp a o m = (.T, m')) :
    instancecheck c false tp a o m' = (.T, m') := by
  rcases instancecheck_cases c false tp a o m with h0 | ⟨σ, ν, h1, ht, hi, _, hd, hc⟩ | ⟨e, σ, ν, h1, _⟩
  · -- the memo came back untouched: the verdict did not depend on it
    rw [h] at h0
    have h0 : m' = m := h0
    subst h0
    exact h
  · rw [h1] at h
    simp only [Prod.mk.injEq, true_and] at h
    subst h
    have := checkShape_idem tp m.args a.shape o.shape m.single σ m.variadic ν hc
    simp only [instancecheck, ht, hi, hd, Bool.false_eq_true, if_false, Bool.not_true, this]
  · rw [h1] at h; cases h

/-! ### PyTree checks -/

/-- what `_MetaPyTree.__instancecheck__` does with the outcome of `_check` -/
def pytreeFinish (sk : Skel) (st : CState) : CState × Verdict → CState × Verdict
  | (st1, .T) => (if st.noCtx then { st1 with memo := st.memo } else st1, .T)
  | (st1, .F) => ({ st1 with memo := st.memo }, .F)
  | (st1, .ANN) => ({ st1 with memo := st.memo }, .ANN)
  | (st1, .EXC e) =>
    if sk.pytreeCatch.covers e || st.noCtx then ({ st1 with memo := st.memo }, .EXC e)
    else (st1, .EXC e)

theorem pytreeInstancecheck_eq (sk : Skel) (leafCheck : Obj → CState → CState × Verdict)
    (leafAny : Bool) (S : Option String) (x : Obj) (st : CState) (hx : x ≠ .none) :
    pytreeInstancecheck sk leafCheck leafAny S x st =
      pytreeFinish sk st
        (pytreeCore sk leafCheck leafAny S x (if st.noCtx then { st with memo := {} } else st)) := by
  cases x <;> first | exact absurd rfl hx | rfl

theorem pytreeFinish_restores (sk : Skel) (st : CState) (r : CState × Verdict)
    (h : match (pytreeFinish sk st r).2 with
         | .T => False | .F => True | .ANN => True | .EXC e => sk.pytreeCatch.covers e = true) :
    (pytreeFinish sk st r).1.memo = st.memo := by
  obtain ⟨st1, v⟩ := r
  cases v with
  | T => exact absurd h (by simp [pytreeFinish])
  | F => rfl
  | ANN => rfl
  | EXC e =>
    by_cases hc : sk.pytreeCatch.covers e = true
    · simp [pytreeFinish, hc]
    · cases hn : st.noCtx with
      | true => simp [pytreeFinish, hn]
      | false =>
        simp only [pytreeFinish, hc, hn, Bool.or_self, Bool.false_eq_true, if_false] at h

theorem pytree_fail_restores (sk : Skel) (leafCheck : Obj → CState → CState × Verdict)
    (leafAny : Bool) (S : Option String) (x : Obj) (st : CState)
    (h : match (pytreeInstancecheck sk leafCheck leafAny S x st).2 with
         | .T => False | .F => True | .ANN => True | .EXC e => sk.pytreeCatch.covers e = true) :
    (pytreeInstancecheck sk leafCheck leafAny S x st).1.memo = st.memo := by
  by_cases hx : x = .none
  · subst hx; rfl
  · rw [pytreeInstancecheck_eq sk leafCheck leafAny S x st hx] at h ⊢
    exact pytreeFinish_restores sk st _ h

/-! ### a manual `isinstance` at any program point -/

theorem onTop_cons (st : TState) (f : CState → CState × Verdict) (m : Memo) (rest : List Memo)
    (hs : st.stack = m :: rest) :
    onTop st f =
      ({ st with
          stack := (f { memo := m, tp := st.tp, flatten := st.flatten }).1.memo :: rest,
          tp := (f { memo := m, tp := st.tp, flatten := st.flatten }).1.tp,
          flatten := (f { memo := m, tp := st.tp, flatten := st.flatten }).1.flatten },
        (f { memo := m, tp := st.tp, flatten := st.flatten }).2) := by
  unfold onTop
  rw [hs]

theorem onTop_nil_stack (st : TState) (f : CState → CState × Verdict) (hs : st.stack = []) :
    (onTop st f).1.stack = [] := by
  unfold onTop
  rw [hs]

theorem checkL_restores (sk : Skel) (l : LType) (x : Obj) (c0 : CState)
    (hl : (∃ cls a, l = .arr cls a) ∨ (∃ l' s, l = .pytree l' s))
    (hb : sk.arrayCatch = .baseException ∧ sk.pytreeCatch = .baseException)
    (hn : c0.noCtx = false)
    (h : (checkL sk l x c0).2 ≠ .T) : (checkL sk l x c0).1.memo = c0.memo := by
  rcases hl with ⟨cls, a, rfl⟩ | ⟨l', s, rfl⟩
  · rw [checkL] at h ⊢
    simp only [hn, Bool.false_eq_true, if_false, hb.1] at h ⊢
    exact instancecheck_base_restores _ _ _ _ _ h
  · simp only [checkL] at h ⊢
    apply pytree_fail_restores
    revert h
    generalize (pytreeInstancecheck sk _ _ s x c0).2 = v
    intro h
    cases v with
    | T => exact absurd rfl h
    | F => trivial
    | ANN => trivial
    | EXC e => simp only [hb.2]; rfl

theorem check_restores (sk : Skel) (l : LType) (x : Obj) (st : TState)
    (hl : (∃ cls a, l = .arr cls a) ∨ (∃ l' s, l = .pytree l' s))
    (hb : sk.arrayCatch = .baseException ∧ sk.pytreeCatch = .baseException)
    (h : (onTop st (checkL sk l x)).2 ≠ .T) :
    (onTop st (checkL sk l x)).1.stack = st.stack := by
  cases hs : st.stack with
  | nil => exact onTop_nil_stack st _ hs
  | cons m rest =>
    rw [onTop_cons st _ m rest hs] at h ⊢
    simp only at h ⊢
    rw [checkL_restores sk l x _ hl hb rfl h]

end JV
