/-
C16 — '?' axes are per-leaf-position axes of exactly one structured PyTree.
-/
import JaxVerif.Spec.Trees
import JaxVerif.Generated.Skeleton
import JaxVerif.Lemmas.Treepath
import JaxVerif.Source.Trees
import JaxVerif.Source.Storage

namespace JV

/-- the key of a `?name` axis at leaf `i` of the PyTree annotated with structure string `T` is its
    own key: different from the plain axis `name`, different for different leaf positions and for
    different structure strings -/
theorem C16_keys (i j : Nat) (t u x y : String) :
    keyOf (some (i, t)) x true = .ok (.leaf i t x) ∧ keyOf (some (i, t)) x false = .ok (.plain x) ∧
    Key.leaf i t x ≠ Key.plain y ∧
    (Key.leaf i t x = Key.leaf j u y ↔ i = j ∧ t = u ∧ x = y) :=
  keys_distinct i j t u x y

/-- the strings the memo (and `print_bindings`) shows for these keys are distinct too, for axis
    names that are identifiers or empty and structure strings free of ')' -/
theorem C16_keys_rendered (k₁ k₂ : Key) (h₁ : k₁.WellFormed) (h₂ : k₂.WellFormed)
    (h : k₁.render = k₂.render) : k₁ = k₂ :=
  render_injective k₁ k₂ h₁ h₂ h

/-- **independence**: the outcome of an array check made at `?`-position `tp` depends only on the
    bindings of plain axes and of `?` axes of that same position — never on `?` axes of other leaf
    positions or of other structure strings — and it changes no other binding -/
theorem C16_frame (tp : TreePath) (args : Args) (sh : Shape) (shape : List Nat)
    (σ₁ σ₂ : Single) (ν₁ ν₂ : Variadic)
    (hσ : ∀ k, Key.relevant tp k → σ₁.lookup k = σ₂.lookup k)
    (hν : ∀ k, Key.relevant tp k → ν₁.lookup k = ν₂.lookup k) :
    match checkShape tp args sh shape σ₁ ν₁, checkShape tp args sh shape σ₂ ν₂ with
    | .ok (σ₁', ν₁'), .ok (σ₂', ν₂') =>
        (∀ k, Key.relevant tp k → σ₁'.lookup k = σ₂'.lookup k ∧ ν₁'.lookup k = ν₂'.lookup k) ∧
        (∀ k, ¬ Key.relevant tp k → σ₁'.lookup k = σ₁.lookup k ∧ ν₁'.lookup k = ν₁.lookup k)
    | .fail, .fail => True
    | .annErr, .annErr => True
    | .exc e₁ _, .exc e₂ _ => e₁ = e₂
    | _, _ => False :=
  checkShape_frame tp args sh shape σ₁ σ₂ ν₁ ν₂ hσ hν

/-- **errors**: a `?` axis met outside every structured PyTree raises AnnotationError (unless the
    `#` clause already accepted the axis); a structured PyTree met while the label of another one
    is set raises AnnotationError -/
theorem C16_errors (sk : Skel) (args : Args) (σ : Single) (x : String) (b : Bool) (n : Nat)
    (h : ¬ (b = true ∧ n = 1)) (lc : Obj → CState → CState × Verdict) (s : String) (y : Obj) (ys : List Obj)
    (i : Nat) (st : CState) (hst : st.tp.isSome = true) :
    checkDim none args σ (.named x b true) n = .annErr ∧
    leafLoop sk lc (some s) (y :: ys) i st = (st, .ANN) :=
  treepath_errors sk args σ x b n h lc s y ys i st hst

/-- **always usable inside exactly one structured PyTree**: once the two flags are re-entrant
    (released only by the PyTree that set them), a leaf type built from arrays, classes, tuples,
    unions and structure-less PyTrees hands both flags through exactly — so every array check in it
    sees the leaf position the enclosing structured PyTree set -/
theorem C16_usable (sk : Skel) (hg : sk.Good ∧ sk.treepathGuarded = true ∧ sk.flattenRestores = true)
    (l : LType) (hl : FlagTransparent l) (x : Obj) (st : CState) :
    (checkL sk l x st).1.tp = st.tp ∧ (checkL sk l x st).1.flatten = st.flatten :=
  checkL_flag_transparent sk hg l hl x st

/-- the source read today has re-entrant flags -/
theorem C16_generated_good :
    Generated.treepathGuarded = some true ∧ Generated.flattenRestores = some true := by decide

/-- each fact matters: `PyTree[PyTree[Shaped[A, "?foo"]], "T"]` raises AnnotationError — on a
    one-leaf tree when the inner, structure-less PyTree switches the outer one's flatten mode off,
    on a two-leaf tree when it clears the outer one's leaf label -/
theorem C16_facts_matter :
    let good : Skel := ⟨.baseException, .baseException, true, true, true, true⟩
    let ann : LType := .pytree (.pytree (.arr "" { dtypes := .any, shape := { pre := [.named "foo" false true], var := none } }) none) (some "T")
    let a3 : Obj := .arr "D" { isInst := true, dtype := "f", shape := [3] }
    (checkL good ann (.tuple [a3]) { noCtx := false }).2 = .T ∧
    (checkL good ann (.tuple [a3, a3]) { noCtx := false }).2 = .T ∧
    (checkL { good with treepathGuarded := false } ann (.tuple [a3, a3]) { noCtx := false }).2 = .ANN ∧
    (checkL { good with flattenRestores := false } ann (.tuple [a3]) { noCtx := false }).2 = .ANN := by
  decide +kernel

/-- **the `?`-leaf label, as set and cleared today**: in the translated `_check` the label is set per leaf only by a PyTree
    with a structure name (an AnnotationError if one is already set), cleared after each accepted leaf and in the
    `finally` of the loop by that PyTree only — the model's `leafLoop` with the guard — for every value, leaf check,
    structure string and state. -/
theorem C16_source_label (env : TEnv) (ac : Catch) (hf : FlattenKept env.leafCheck) (st : CState) :
    runInstancecheck env Generated.instancecheckCode Generated.checkCode st =
      some (if env.bare then (st, .T)
            else pytreeInstancecheck (goodSkel ac) env.leafCheck env.leafAny env.S env.x st) :=
  source_tree_instancecheck env ac hf st

/-- the label cell itself, from the source read today (`clear_` / `set_` / `get_treepath_memo` of `_storage.py`): the label
    stored for a leaf is built from THIS leaf index and THIS structure name, a second label on top of one is an
    AnnotationError, reading without one is an AnnotationError (the two errors of the property), for every content of the
    thread's cell including a thread that never touched it -/
theorem C16_source_label_cell (ctx : KCtx) (cell : Option KVal) (h : TreepathCellOk cell) :
    runCellFn Generated.treepathFuns ctx Generated.clearTreepathCode cell = some (some .none, .inl .none) ∧
    runCellFn Generated.treepathFuns ctx Generated.setTreepathCode cell
      = (match cell with
         | some (.label _ _) => some (cell, .inr ())
         | _ => some (some (.label ctx.index ctx.sname), .inl .none)) ∧
    runCellFn Generated.treepathFuns ctx Generated.getTreepathCode cell
      = (match cell with
         | some (.label i S) => some (cell, .inl (.label i S))
         | _ => some (cell, .inr ())) :=
  source_cell_treepath ctx cell h

/-- REFINEMENT, from the source read today: every history of clearing, setting and reading the `?`-leaf label — the ones
    that raise AnnotationError included, after which the history goes on — runs on the translated `_storage.py` functions
    with exactly the abstract machine's sequence of errors and ends in a cell that stands for the abstract label (by
    induction over the history, Source/Storage.lean) -/
theorem C16_source_label_history (ops : List LabelOp) (c : Option KVal) (h : LeafCellOk c) :
    ∃ c', runLabelImpl ops c = some (c', (runLabelSpec ops (tpOfCell c)).2) ∧ tpOfCell c' = (runLabelSpec ops (tpOfCell c)).1 :=
  source_cell_treepath_history ops c h

/-- a non-trivial history: label a leaf, read it, try to label on top (error), clear, read without a label (error) -/
example : runLabelSpec [.set 0 "T", .get, .set 1 "T", .clear, .get] none = (none, [false, false, true, false, true]) := by
  simp [runLabelSpec, LabelOp.spec]

end JV
