/-
The documented dtype hierarchy (docs/api/array.md, "Dtype") written down by hand, and the
three-valued requirement it induces. (C03)
-/
import JaxVerif.Model.Dtype

namespace JV

inductive DKind
  | bool | uint | int | float | complex | key | other
  deriving DecidableEq, Repr

/-- one (dtype, array library) combination -/
structure DtypeRow where
  canon : String        -- canonical name of the dtype (`numpy.dtype(...).name`)
  kind : DKind
  backend : String
  raw : RawDtype
  deriving Repr

/-- the abstract categories of the documentation and the kinds each stands for -/
def categoryKinds : List (String × List DKind) :=
  [("Bool", [.bool]), ("UInt", [.uint]), ("Int", [.int]), ("Integer", [.uint, .int]),
   ("Float", [.float]), ("Complex", [.complex]), ("Inexact", [.float, .complex]),
   ("Real", [.float, .uint, .int]), ("Num", [.uint, .int, .float, .complex]), ("Key", [.key])]

/-- the exported precision classes and their one dtype -/
def precisionClasses : List (String × String × DKind) :=
  [("UInt2", "uint2", .uint), ("UInt4", "uint4", .uint), ("UInt8", "uint8", .uint),
   ("UInt16", "uint16", .uint), ("UInt32", "uint32", .uint), ("UInt64", "uint64", .uint),
   ("Int2", "int2", .int), ("Int4", "int4", .int), ("Int8", "int8", .int), ("Int16", "int16", .int),
   ("Int32", "int32", .int), ("Int64", "int64", .int),
   ("Float8e4m3b11fnuz", "float8_e4m3b11fnuz", .float), ("Float8e4m3fn", "float8_e4m3fn", .float),
   ("Float8e4m3fnuz", "float8_e4m3fnuz", .float), ("Float8e5m2", "float8_e5m2", .float),
   ("Float8e5m2fnuz", "float8_e5m2fnuz", .float), ("BFloat16", "bfloat16", .float),
   ("Float16", "float16", .float), ("Float32", "float32", .float), ("Float64", "float64", .float),
   ("Complex64", "complex64", .complex), ("Complex128", "complex128", .complex)]

/-- a dtype the documentation names: it has a precision class, or is the boolean / key dtype -/
def documented (canon : String) (k : DKind) : Bool :=
  k == .bool || k == .key || precisionClasses.any (fun p => p.2.1 == canon)

/-- what the documentation requires of `isinstance(array_of_dtype, Category[...])`:
    `some true` must accept, `some false` must reject, `none` = the documentation is silent
    (a dtype of the right kind that no exported precision class names, e.g. float128) -/
def required (cat : String) (canon : String) (k : DKind) : Option Bool :=
  if cat == "Shaped" then some true
  else match categoryKinds.lookup cat with
    | some ks => if ks.contains k then (if documented canon k then some true else none) else some false
    | none =>
      match precisionClasses.find? (fun p => p.1 == cat) with
      | some (_, d, _) => some (canon == d)
      | none => none

/-- the 34 exported category names -/
def exportedCategories : List String :=
  ["BFloat16", "Bool", "Complex", "Complex128", "Complex64", "Float", "Float16", "Float32", "Float64",
   "Float8e4m3b11fnuz", "Float8e4m3fn", "Float8e4m3fnuz", "Float8e5m2", "Float8e5m2fnuz", "Inexact",
   "Int", "Int16", "Int2", "Int32", "Int4", "Int64", "Int8", "Integer", "Key", "Num", "Real", "Shaped",
   "UInt", "UInt16", "UInt2", "UInt32", "UInt4", "UInt64", "UInt8"]

end JV
