import JaxVerif.Lemmas.Flags
namespace JV

theorem popAfter_rest (b : Bool) (o : CallOutcome) (st : TState) (h : Rest st) : Rest (popAfter b o st) := by
  unfold popAfter; split <;> exact h

theorem push_rest (m : Memo) (st : TState) (h : Rest st) : Rest { st with stack := m :: st.stack } := h

set_option maxHeartbeats 400000 in
theorem call_rest (sk : Skel) (w : WrapSkel) (hs : sk.Good) (k ps ret bindOk noTc body e) (st : TState) (h : Rest st)
   (ih : ∀ st, Rest st → Rest (runProgs sk w body st).1) :
   Rest (runProg sk w (.call k ps ret bindOk noTc body e) st).1 := by
  cases k <;> rw [runProg] <;> generalize runProgs sk w body = B at ih ⊢
  have hcp := checkParams_rest sk hs ps
  have hpa := problemArg_rest sk hs ps
  have hot := fun (st : TState) l x => onTop_rest st (checkL sk l x) (checkL_le sk hs l x)
  have hpop := popAfter_rest
  have hpush := push_rest
  all_goals grind
end JV
