/-
Helper lemmas for C13: stability of accepted array checks under later accepted checks (so that the
one-at-a-time re-check of `_get_problem_arg` blames the right parameter), the enabled new-style
call split by the result of its parameter pass, and what the caller sees in each case.
Core Lean only.
-/
import JaxVerif.Lemmas.Calls

namespace JV

/-! ### stability: a use accepted once stays accepted, and changes nothing, later in the walk -/

/-- the use `(b, n)` is accepted from `st` and leaves it as it is -/
theorem vstep_fix_true (s : List Nat) (b : Bool) (n : List Nat) :
    vstep (some (true, s)) b n = some (true, s) ↔ b = true ∧ BroadcastsTo n s := by
  unfold BroadcastsTo
  simp only [vstep]
  cases hj : bcast n s with
  | none => simp
  | some j =>
    cases b with
    | true => simp
    | false =>
      simp only [Bool.not_false, Bool.true_and]
      split <;> simp

theorem vstep_fix_false (s : List Nat) (b : Bool) (n : List Nat) :
    vstep (some (false, s)) b n = some (false, s) ↔
      if b then BroadcastsTo n s else n = s := by
  unfold BroadcastsTo
  cases b with
  | true =>
    simp only [vstep, if_true]
    cases hj : bcast n s with
    | none => simp
    | some j =>
      simp only [Option.some.injEq]
      by_cases hjs : j = s
      · simp [hjs]
      · simp [hjs]
  | false =>
    simp only [vstep, Bool.false_eq_true, if_false]
    by_cases hns : n = s
    · simp [hns]
    · simp [hns]

theorem vstep_from_false (s : List Nat) (b : Bool) (n : List Nat) (st' : Bool × List Nat)
    (h : vstep (some (false, s)) b n = some st') : st' = (false, s) := by
  cases b with
  | true =>
    simp only [vstep, if_true] at h
    cases hj : bcast n s with
    | none => simp [hj] at h
    | some j =>
      simp only [hj] at h
      split at h
      · cases h
      · cases h; rfl
  | false =>
    simp only [vstep, Bool.false_eq_true, if_false] at h
    split at h
    · cases h
    · cases h; rfl

/-- a later accepted use of the same `*name` keeps every earlier accepted use accepted -/
theorem vstep_stable (st st' : Bool × List Nat) (b' : Bool) (n' : List Nat) (b : Bool)
    (n : List Nat) (hstep : vstep (some st) b' n' = some st')
    (hfix : vstep (some st) b n = some st) : vstep (some st') b n = some st' := by
  obtain ⟨f, s⟩ := st
  cases f with
  | false =>
    rw [vstep_from_false s b' n' st' hstep]
    exact hfix
  | true =>
    obtain ⟨rfl, hns⟩ := (vstep_fix_true s b n).mp hfix
    simp only [vstep] at hstep
    cases hj : bcast n' s with
    | none => simp [hj] at hstep
    | some j =>
      simp only [hj] at hstep
      have hsj : BroadcastsTo s j := (bcast_upper n' s j hj).2
      have hnj : BroadcastsTo n j := bt_trans n s j hns hsj
      cases b' with
      | true =>
        simp only [Bool.not_true, Bool.false_and, Bool.false_eq_true, if_false,
          Option.some.injEq] at hstep
        subst hstep
        exact (vstep_fix_true j true n).mpr ⟨rfl, hnj⟩
      | false =>
        simp only [Bool.not_false, Bool.true_and] at hstep
        split at hstep
        · cases hstep
        · cases hstep
          rw [vstep_fix_false]
          simp only [if_true]
          exact hnj

theorem setVar_of_lookup (key : Key) (st : Bool × List Nat) : ∀ ν : Variadic,
    ν.lookup key = some st → setVar key st ν = ν
  | [], h => by simp at h
  | (k0, v0) :: rest, h => by
    rw [lookup_cons_eq] at h
    by_cases h0 : key = k0
    · subst h0
      simp only [if_true, Option.some.injEq] at h
      subst h
      simp [setVar]
    · simp only [h0, if_false] at h
      have h0' : ¬ k0 = key := fun e => h0 e.symm
      simp only [setVar, h0', if_false, setVar_of_lookup key st rest h]

/-- every `*name` bound in `ν` is bound in `ν'`, and `ν'` accepts, unchanged, every use that `ν`
    accepts unchanged -/
def SubVar (ν ν' : Variadic) : Prop :=
  ∀ key st, ν.lookup key = some st → ∃ st', ν'.lookup key = some st' ∧
    ∀ b n, vstep (some st) b n = some st → vstep (some st') b n = some st'

theorem SubVar.refl (ν : Variadic) : SubVar ν ν := fun _ st h => ⟨st, h, fun _ _ h => h⟩

theorem SubVar.trans {ν₁ ν₂ ν₃ : Variadic} (h1 : SubVar ν₁ ν₂) (h2 : SubVar ν₂ ν₃) :
    SubVar ν₁ ν₃ := by
  intro key st h
  obtain ⟨st2, hl2, hf2⟩ := h1 key st h
  obtain ⟨st3, hl3, hf3⟩ := h2 key st2 hl2
  exact ⟨st3, hl3, fun b n hb => hf3 b n (hf2 b n hb)⟩

theorem SubVar_setVar (ν : Variadic) (key : Key) (b : Bool) (n : List Nat) (st : Bool × List Nat)
    (h : vstep (ν.lookup key) b n = some st) : SubVar ν (setVar key st ν) := by
  intro k s hk
  rw [lookup_setVar]
  by_cases hkk : k = key
  · subst hkk
    simp only [if_true]
    rw [hk] at h
    exact ⟨st, rfl, fun b0 n0 h0 => vstep_stable s st b n b0 n0 h h0⟩
  · simp only [hkk, if_false]
    exact ⟨s, hk, fun _ _ h => h⟩

/-- an accepted shape walk only extends the memo -/
theorem checkShape_mono (tp : TreePath) (args : Args) (sh : Shape) (shape : List Nat)
    (σ σ' : Single) (ν ν' : Variadic) (h : checkShape tp args sh shape σ ν = .ok (σ', ν')) :
    SubSingle σ σ' ∧ SubVar ν ν' := by
  obtain ⟨pre, var⟩ := sh
  cases var with
  | none =>
    simp only [checkShape] at h
    split at h
    · cases h
    · cases hc : checkDims tp args σ (pre.zip shape) with
      | fail => simp [hc] at h
      | annErr => simp [hc] at h
      | exc e l => simp [hc] at h
      | ok σ1 =>
        simp only [hc, Walk.ok.injEq, Prod.mk.injEq] at h
        obtain ⟨rfl, rfl⟩ := h
        exact ⟨(checkDims_sound tp args σ σ1 _ hc).1, SubVar.refl _⟩
  | some vs =>
    obtain ⟨v, suf⟩ := vs
    obtain ⟨_, σ1, hc1, hc2, hvar⟩ := checkShape_some_ok tp args pre v suf shape σ σ' ν ν' h
    have hm1 : SubSingle σ σ1 := (checkDims_sound tp args σ σ1 _ hc1).1
    have hm2 : SubSingle σ1 σ' := (checkDims_sound tp args σ1 σ' _ hc2).1
    refine ⟨hm1.trans hm2, ?_⟩
    cases v with
    | anonVar =>
      have : ν' = ν := hvar
      rw [this]; exact SubVar.refl _
    | namedVar x b t =>
      obtain ⟨key, st, _, hv, rfl⟩ := hvar
      exact SubVar_setVar ν key b _ st hv

/-- a shape walk that is accepted without changing the memo stays so from every later memo -/
theorem checkShape_stable (tp : TreePath) (args : Args) (sh : Shape) (shape : List Nat)
    (σ τ : Single) (ν ν' : Variadic) (h : checkShape tp args sh shape σ ν = .ok (σ, ν))
    (hσ : SubSingle σ τ) (hν : SubVar ν ν') :
    checkShape tp args sh shape τ ν' = .ok (τ, ν') := by
  obtain ⟨pre, var⟩ := sh
  cases var with
  | none =>
    simp only [checkShape] at h ⊢
    split at h
    · cases h
    · next hlen =>
      have hlen2 : (shape.length != pre.length) = false := by simpa using hlen
      simp only [hlen2, Bool.false_eq_true, if_false]
      cases hc : checkDims tp args σ (pre.zip shape) with
      | fail => simp [hc] at h
      | annErr => simp [hc] at h
      | exc e l => simp [hc] at h
      | ok σ1 =>
        simp only [hc, Walk.ok.injEq, Prod.mk.injEq] at h
        obtain ⟨rfl, _⟩ := h
        rw [checkDims_stable tp args σ1 σ1 τ _ hc hσ]
  | some vs =>
    obtain ⟨v, suf⟩ := vs
    obtain ⟨hlen, σ1, hc1, hc2, hvar⟩ := checkShape_some_ok tp args pre v suf shape σ σ ν ν h
    have hmono : SubSingle σ1 σ := (checkDims_sound tp args σ1 σ _ hc2).1
    have hs1 := checkDims_stable tp args σ σ1 τ _ hc1 (hmono.trans hσ)
    have hs2 := checkDims_stable tp args σ1 σ τ _ hc2 hσ
    have hlen' : ¬ shape.length < pre.length + suf.length := by omega
    simp only [checkShape, hlen', if_false, hs1, hs2]
    cases v with
    | anonVar => rfl
    | namedVar x b t =>
      obtain ⟨key, st, hk, hv, hνeq⟩ := hvar
      have hl : ν.lookup key = some st := by
        rw [hνeq, lookup_setVar, if_pos rfl]
      rw [hl] at hv
      obtain ⟨st', hl', hf'⟩ := hν key st hl
      simp only [hk, hl', hf' b _ hv, setVar_of_lookup key st' ν' hl']


/-- the array check `p` is accepted from `m` and leaves `m` exactly as it is -/
def Stable (c : Catch) (tp : TreePath) (m : Memo) (p : Ann × ArrObj) : Prop :=
  instancecheck c false tp p.1 p.2 m = (.T, m)

theorem Stable_self (c : Catch) (tp : TreePath) (a : Ann) (o : ArrObj) (m m' : Memo)
    (h : instancecheck c false tp a o m = (.T, m')) : Stable c tp m' (a, o) :=
  instancecheck_idempotent c tp a o m m' h

theorem Stable_step (c : Catch) (tp : TreePath) (a : Ann) (o : ArrObj) (m m' : Memo)
    (h : instancecheck c false tp a o m = (.T, m')) (q : Ann × ArrObj) (hq : Stable c tp m q) :
    Stable c tp m' q := by
  obtain ⟨qa, qo⟩ := q
  unfold Stable at hq ⊢
  simp only at hq ⊢
  cases ht : qa.transparent with
  | true => simp only [instancecheck, ht, if_true]
  | false =>
    obtain ⟨hi, hd, σ, ν, hc, hm⟩ := instancecheck_T_inv c tp qa qo m m ht hq
    have hσ : σ = m.single := (congrArg Memo.single hm).symm
    have hν : ν = m.variadic := (congrArg Memo.variadic hm).symm
    subst hσ hν
    rcases instancecheck_cases c false tp a o m with h0 | ⟨σ', ν', h1, _, _, _, _, hc'⟩ | ⟨e, σ', ν', h1, _⟩
    · rw [h] at h0
      have h0 : m' = m := h0
      rw [h0]; exact hq
    · rw [h1] at h
      simp only [Prod.mk.injEq, true_and] at h
      subst h
      obtain ⟨hs, hv⟩ := checkShape_mono tp m.args a.shape o.shape m.single σ' m.variadic ν' hc'
      have := checkShape_stable tp m.args qa.shape qo.shape m.single σ' m.variadic ν' hc hs hv
      simp only [instancecheck, ht, hi, hd, Bool.false_eq_true, if_false, Bool.not_true, this]
    · rw [h1] at h; cases h
/-! ### the parameter pass and the one-at-a-time re-check -/

/-- a state whose top context is `m`, outside any PyTree check -/
abbrev topState (m : Memo) (rest : List Memo) (tpv : TreePath) (dis : Bool) : TState :=
  { stack := m :: rest, tp := tpv, flatten := false, disable := dis }

theorem onTop_param (sk : Skel) (p : Param) (cls : String) (a : Ann) (hty : p.ty = .arr cls a)
    (m : Memo) (rest : List Memo) (tpv : TreePath) (dis : Bool) (v : Verdict) (m1 : Memo)
    (hi : instancecheck sk.arrayCatch false tpv a (p.val.toArr cls) m = (v, m1)) :
    onTop (topState m rest tpv dis) (checkL sk p.ty p.val) = (topState m1 rest tpv dis, v) := by
  rw [hty, onTop_arr, hi]

theorem blame_aux (sk : Skel) (rest : List Memo) (tpv : TreePath) (dis : Bool) :
    ∀ (ps : List Param) (m : Memo), (∀ p ∈ ps, ∃ cls a, p.ty = .arr cls a) →
    ∀ (st2 : TState) (x : Option String),
      checkParams sk ps (topState m rest tpv dis) = (st2, .F, x) →
      ∃ M, st2 = topState M rest tpv dis ∧
        problemArg sk ps (topState M rest tpv dis) = (topState M rest tpv dis, .inl x) ∧
        ∀ q, Stable sk.arrayCatch tpv m q → Stable sk.arrayCatch tpv M q
  | [], m, _, st2, x, h => by simp [checkParams] at h
  | p :: ps, m, hps, st2, x, h => by
    obtain ⟨cls, a, hty⟩ := hps p (by simp)
    have hps' : ∀ q ∈ ps, ∃ cls a, q.ty = .arr cls a := fun q hq => hps q (by simp [hq])
    cases hi : instancecheck sk.arrayCatch false tpv a (p.val.toArr cls) m with
    | mk v m1 =>
      have hon := onTop_param sk p cls a hty m rest tpv dis v m1 hi
      cases v with
      | T =>
        simp only [checkParams, hon] at h
        obtain ⟨M, hst, hpa, hstab⟩ := blame_aux sk rest tpv dis ps m1 hps' st2 x h
        have hsp : Stable sk.arrayCatch tpv M (a, p.val.toArr cls) :=
          hstab _ (Stable_self _ _ _ _ _ _ hi)
        have hon' := onTop_param sk p cls a hty M rest tpv dis .T M hsp
        refine ⟨M, hst, ?_, fun q hq => hstab q (Stable_step _ _ _ _ _ _ hi q hq)⟩
        simp only [problemArg, hon', hpa]
      | F =>
        simp only [checkParams, hon, Prod.mk.injEq, true_and] at h
        obtain ⟨rfl, rfl⟩ := h
        have hm : m1 = m := by
          have := instancecheck_fail_restores sk.arrayCatch false tpv a (p.val.toArr cls) m
            (Or.inl (by rw [hi]))
          rw [hi] at this; exact this
        subst hm
        refine ⟨m1, rfl, ?_, fun q hq => hq⟩
        simp only [problemArg, hon]
      | ANN => simp [checkParams, hon] at h
      | EXC e => simp [checkParams, hon] at h

theorem problemArg_blames_first (sk : Skel) (ps : List Param) (m : Memo) (rest : List Memo) (tpv : TreePath) (dis : Bool)
    (hps : ∀ p ∈ ps, ∃ cls a, p.ty = .arr cls a)
    (st2 : TState) (nm : String)
    (h : checkParams sk ps { stack := m :: rest, tp := tpv, flatten := false, disable := dis } = (st2, .F, some nm)) :
    problemArg sk ps st2 = (st2, .inl (some nm)) := by
  obtain ⟨M, hst, hpa, _⟩ := blame_aux sk rest tpv dis ps m hps st2 (some nm) h
  rw [hst]; exact hpa

theorem checkSeq_fail_memo (c : Catch) (tp : TreePath) (l : List (Ann × ArrObj)) (m m' : Memo)
    (h : checkSeq c tp l m = (.F, m')) :
    ∃ l1 p l2, l = l1 ++ p :: l2 ∧ checkSeq c tp l1 m = (.T, m') ∧
      (instancecheck c false tp p.1 p.2 m').1 = .F ∧ (instancecheck c false tp p.1 p.2 m').2 = m' := by
  induction l generalizing m with
  | nil => simp [checkSeq] at h
  | cons p rest ih =>
    obtain ⟨a, o⟩ := p
    cases hi : instancecheck c false tp a o m with
    | mk v m1 =>
      cases v with
      | T =>
        rw [checkSeq_cons_T c tp a o rest m m1 hi] at h
        obtain ⟨l1, p, l2, hl, hs, h1, h2⟩ := ih m1 h
        refine ⟨(a, o) :: l1, p, l2, by rw [hl]; rfl, ?_, h1, h2⟩
        rw [checkSeq_cons_T c tp a o l1 m m1 hi]; exact hs
      | F =>
        have hm : m1 = m := by
          have := instancecheck_fail_restores c false tp a o m (Or.inl (by rw [hi]))
          rw [hi] at this; exact this
        subst hm
        simp only [checkSeq, hi, Prod.mk.injEq, true_and] at h
        subst h
        exact ⟨[], (a, o), rest, rfl, rfl, by rw [hi], by rw [hi]⟩
      | ANN => simp [checkSeq, hi] at h
      | EXC e => simp [checkSeq, hi] at h


/-! ### the enabled new-style call, one case of the parameter pass at a time -/

/-- the rest of an enabled new-style call once the parameter pass accepted; `r` = the run of the
    body -/
def newAccepted (sk : Skel) (w : WrapSkel) (ps : List Param) (ret : Option (LType × Obj))
    (r : TState × List Obs) (e : Exit) : TState × List Obs :=
  match e with
  | .ret =>
    match ret with
    | none => (popAfter w.newPopInFinally .returned r.1, [.bodyStart] ++ r.2 ++ [.outcome .returned])
    | some (l, x) =>
      match checkParams sk ps r.1 with
      | (st4, .T, _) =>
        match onTop st4 (checkL sk l x) with
        | (st5, .T) =>
          (popAfter w.newPopInFinally .returned st5, [.bodyStart] ++ r.2 ++ [.outcome .returned])
        | (st5, .ANN) =>
          let o := if w.annErrFirst then CallOutcome.ann else .tceReturn
          (popAfter w.newPopInFinally o st5, [.bodyStart] ++ r.2 ++ [.outcome o])
        | (st5, .EXC .baseException) =>
          (popAfter w.newPopInFinally (.exc .baseException) st5,
            [.bodyStart] ++ r.2 ++ [.outcome (.exc .baseException)])
        | (st5, _) =>
          (popAfter w.newPopInFinally .tceReturn st5,
            [.bodyStart] ++ r.2 ++ [.tceBindings (topMemo st5), .outcome .tceReturn])
      | (st4, .ANN, _) =>
        let o := if w.annErrFirst then CallOutcome.ann else .tceReturn
        (popAfter w.newPopInFinally o st4, [.bodyStart] ++ r.2 ++ [.outcome o])
      | (st4, .EXC .baseException, _) =>
        (popAfter w.newPopInFinally (.exc .baseException) st4,
          [.bodyStart] ++ r.2 ++ [.outcome (.exc .baseException)])
      | (st4, _, _) =>
        (popAfter w.newPopInFinally .tceReturn st4,
          [.bodyStart] ++ r.2 ++ [.tceBindings (topMemo st4), .outcome .tceReturn])
  | e =>
    (popAfter w.newPopInFinally (exitOutcome e) r.1, [.bodyStart] ++ r.2 ++ [.outcome (exitOutcome e)])

/-- the rest of an enabled new-style call once the parameter pass rejected -/
def newRejected (sk : Skel) (w : WrapSkel) (ps : List Param) (st2 : TState) : TState × List Obs :=
  match problemArg sk ps st2 with
  | (st3, .inl b) => (popAfter w.newPopInFinally (.tceParams b) st3,
      [.tceBindings (topMemo st3), .outcome (.tceParams b)])
  | (st3, .inr e) => (popAfter w.newPopInFinally (.exc e) st3, [.outcome (.exc e)])

/-- the context pushed by a call -/
abbrev pushArgs (ps : List Param) (st : TState) : TState :=
  { st with stack := { args := argsOf ps } :: st.stack }

theorem enabled_conds (w : WrapSkel) (hw : w.disableTestFirst = true) (st : TState)
    (hd : st.disable = false) :
    (w.disableTestFirst && (st.disable || false)) = false ∧
      (!w.disableTestFirst && (st.disable || false)) = false := by
  simp [hw, hd]

theorem runProg_new_T (sk : Skel) (w : WrapSkel) (hw : w.disableTestFirst = true)
    (ps : List Param) (ret : Option (LType × Obj)) (body : List Prog) (e : Exit) (st : TState)
    (hd : st.disable = false) (st2 : TState) (x : Option String)
    (h : checkParams sk ps (pushArgs ps st) = (st2, .T, x)) :
    runProg sk w (.call .newStyle ps ret true false body e) st =
      newAccepted sk w ps ret (runProgs sk w body st2) e := by
  obtain ⟨c1, c2⟩ := enabled_conds w hw st hd
  rw [runProg]
  simp only [c1, c2, Bool.false_eq_true, if_false, Bool.not_true, h]
  rfl

theorem runProg_new_ANN_gen (sk : Skel) (w : WrapSkel) (hw : w.disableTestFirst = true)
    (ps : List Param) (ret : Option (LType × Obj)) (body : List Prog) (e : Exit) (st : TState)
    (hd : st.disable = false) (st2 : TState) (x : Option String)
    (h : checkParams sk ps (pushArgs ps st) = (st2, .ANN, x)) :
    runProg sk w (.call .newStyle ps ret true false body e) st =
      if w.annErrFirst then (popAfter w.newPopInFinally .ann st2, [.outcome .ann])
      else newRejected sk w ps st2 := by
  obtain ⟨c1, c2⟩ := enabled_conds w hw st hd
  rw [runProg]
  simp only [c1, c2, Bool.false_eq_true, if_false, Bool.not_true, h]
  rfl

theorem runProg_new_ANN (sk : Skel) (w : WrapSkel)
    (hw : w.disableTestFirst = true ∧ w.annErrFirst = true)
    (ps : List Param) (ret : Option (LType × Obj)) (body : List Prog) (e : Exit) (st : TState)
    (hd : st.disable = false) (st2 : TState) (x : Option String)
    (h : checkParams sk ps (pushArgs ps st) = (st2, .ANN, x)) :
    runProg sk w (.call .newStyle ps ret true false body e) st =
      (popAfter w.newPopInFinally .ann st2, [.outcome .ann]) := by
  rw [runProg_new_ANN_gen sk w hw.1 ps ret body e st hd st2 x h, hw.2]
  rfl

theorem runProg_new_base (sk : Skel) (w : WrapSkel) (hw : w.disableTestFirst = true)
    (ps : List Param) (ret : Option (LType × Obj)) (body : List Prog) (e : Exit) (st : TState)
    (hd : st.disable = false) (st2 : TState) (x : Option String)
    (h : checkParams sk ps (pushArgs ps st) = (st2, .EXC .baseException, x)) :
    runProg sk w (.call .newStyle ps ret true false body e) st =
      (popAfter w.newPopInFinally (.exc .baseException) st2, [.outcome (.exc .baseException)]) := by
  obtain ⟨c1, c2⟩ := enabled_conds w hw st hd
  rw [runProg]
  simp only [c1, c2, Bool.false_eq_true, if_false, Bool.not_true, h]

theorem runProg_new_rej (sk : Skel) (w : WrapSkel) (hw : w.disableTestFirst = true)
    (ps : List Param) (ret : Option (LType × Obj)) (body : List Prog) (e : Exit) (st : TState)
    (hd : st.disable = false) (st2 : TState) (v : Verdict) (x : Option String)
    (h : checkParams sk ps (pushArgs ps st) = (st2, v, x))
    (hv : v = .F ∨ v = .EXC .exception) :
    runProg sk w (.call .newStyle ps ret true false body e) st = newRejected sk w ps st2 := by
  obtain ⟨c1, c2⟩ := enabled_conds w hw st hd
  rw [runProg]
  rcases hv with rfl | rfl
  · simp only [c1, c2, Bool.false_eq_true, if_false, Bool.not_true, h]
    rfl
  · simp only [c1, c2, Bool.false_eq_true, if_false, Bool.not_true, h]
    rfl

theorem checkSeq_append_T (c : Catch) (tp : TreePath) (l1 l2 : List (Ann × ArrObj)) (m m' : Memo)
    (h : checkSeq c tp l1 m = (.T, m')) : checkSeq c tp (l1 ++ l2) m = checkSeq c tp l2 m' := by
  induction l1 generalizing m with
  | nil =>
    simp only [checkSeq, Prod.mk.injEq, true_and] at h
    subst h; rfl
  | cons p rest ih =>
    obtain ⟨a, o⟩ := p
    cases hi : instancecheck c false tp a o m with
    | mk v m1 =>
      cases v with
      | T =>
        rw [checkSeq_cons_T c tp a o rest m m1 hi] at h
        rw [List.cons_append, checkSeq_cons_T c tp a o _ m m1 hi]
        exact ih m1 h
      | F => simp [checkSeq, hi] at h
      | ANN => simp [checkSeq, hi] at h
      | EXC e => simp [checkSeq, hi] at h

theorem checkSeq_append_stop (c : Catch) (tp : TreePath) (l1 l2 : List (Ann × ArrObj)) (m : Memo)
    (h : (checkSeq c tp l1 m).1 ≠ .T) : checkSeq c tp (l1 ++ l2) m = checkSeq c tp l1 m := by
  induction l1 generalizing m with
  | nil => exact absurd rfl h
  | cons p rest ih =>
    obtain ⟨a, o⟩ := p
    by_cases hv : (instancecheck c false tp a o m).1 = .T
    · obtain ⟨m1, hi⟩ : ∃ m1, instancecheck c false tp a o m = (.T, m1) :=
        ⟨(instancecheck c false tp a o m).2, by rw [← hv]⟩
      rw [checkSeq_cons_T c tp a o rest m m1 hi] at h ⊢
      rw [List.cons_append, checkSeq_cons_T c tp a o _ m m1 hi]
      exact ih m1 h
    · rw [List.cons_append, checkSeq_cons_stop c tp a o _ m hv, checkSeq_cons_stop c tp a o _ m hv]

/-- the parameter pass over array-annotated parameters is `checkSeq`, state and all -/
theorem checkParams_full (sk : Skel) (rest : List Memo) (tpv : TreePath) (dis : Bool) :
    ∀ (ps : List Param) (m : Memo), (∀ p ∈ ps, ∃ cls a, p.ty = .arr cls a) →
      ∃ x, checkParams sk ps (topState m rest tpv dis) =
        (topState (checkSeq sk.arrayCatch tpv (ps.map Param.asArr) m).2 rest tpv dis,
          (checkSeq sk.arrayCatch tpv (ps.map Param.asArr) m).1, x)
  | [], m, _ => ⟨none, rfl⟩
  | p :: ps, m, hps => by
    obtain ⟨cls, a, hty⟩ := hps p (by simp)
    have hps' : ∀ q ∈ ps, ∃ cls a, q.ty = .arr cls a := fun q hq => hps q (by simp [hq])
    simp only [List.map_cons, asArr_arr p cls a hty]
    cases hi : instancecheck sk.arrayCatch false tpv a (p.val.toArr cls) m with
    | mk v m1 =>
      have hon := onTop_param sk p cls a hty m rest tpv dis v m1 hi
      cases v with
      | T =>
        rw [checkSeq_cons_T _ _ _ _ _ _ _ hi]
        obtain ⟨x, hx⟩ := checkParams_full sk rest tpv dis ps m1 hps'
        exact ⟨x, by simp only [checkParams, hon, hx]⟩
      | F => exact ⟨some p.name, by simp only [checkParams, hon, checkSeq, hi]⟩
      | ANN => exact ⟨some p.name, by simp only [checkParams, hon, checkSeq, hi]⟩
      | EXC e => exact ⟨some p.name, by simp only [checkParams, hon, checkSeq, hi]⟩

/-! ### what the caller sees -/

theorem newAccepted_last (sk : Skel) (w : WrapSkel) (ps : List Param) (ret : Option (LType × Obj))
    (r : TState × List Obs) (e : Exit) :
    ∃ o tail, (newAccepted sk w ps ret r e).2 = [.bodyStart] ++ r.2 ++ (tail ++ [.outcome o]) ∧
      (∀ b, o ≠ .tceParams b) ∧ (tail = [] ∨ ∃ m, tail = [.tceBindings m]) ∧
      (e ≠ .ret → o = exitOutcome e ∧ tail = []) ∧ (ret = none → o = exitOutcome e ∧ tail = []) := by
  have hann : ∀ b, (if w.annErrFirst = true then CallOutcome.ann else .tceReturn) ≠ .tceParams b := by
    intro b; split <;> simp
  unfold newAccepted
  split
  · split
    · exact ⟨.returned, [], rfl, by simp, Or.inl rfl, by simp, by simp [exitOutcome]⟩
    · split
      · split
        · exact ⟨.returned, [], rfl, by simp, Or.inl rfl, by simp, by simp⟩
        · exact ⟨_, [], rfl, hann, Or.inl rfl, by simp, by simp⟩
        · exact ⟨.exc .baseException, [], rfl, by simp, Or.inl rfl, by simp, by simp⟩
        · exact ⟨.tceReturn, [.tceBindings _], rfl, by simp, Or.inr ⟨_, rfl⟩, by simp, by simp⟩
      · exact ⟨_, [], rfl, hann, Or.inl rfl, by simp, by simp⟩
      · exact ⟨.exc .baseException, [], rfl, by simp, Or.inl rfl, by simp, by simp⟩
      · exact ⟨.tceReturn, [.tceBindings _], rfl, by simp, Or.inr ⟨_, rfl⟩, by simp, by simp⟩
  · refine ⟨exitOutcome e, [], rfl, ?_, Or.inl rfl, by simp, by simp⟩
    cases e <;> simp [exitOutcome]

theorem newRejected_obs (sk : Skel) (w : WrapSkel) (ps : List Param) (st2 : TState) :
    (∃ b m, (newRejected sk w ps st2).2 = [.tceBindings m, .outcome (.tceParams b)] ∧
        (problemArg sk ps st2).2 = .inl b) ∨
      ∃ e, (newRejected sk w ps st2).2 = [.outcome (.exc e)] := by
  unfold newRejected
  split
  · next st3 b hb => exact Or.inl ⟨b, _, rfl, by rw [hb]⟩
  · next st3 e _ => exact Or.inr ⟨e, rfl⟩


theorem getLast?_tail (pre tail : List Obs) (x : Obs) : (pre ++ (tail ++ [x])).getLast? = some x := by
  rw [← List.append_assoc, List.getLast?_append]
  simp

theorem call_ann (sk : Skel) (w : WrapSkel) (hw : w.disableTestFirst = true ∧ w.annErrFirst = true)
    (ps : List Param) (ret : Option (LType × Obj)) (body : List Prog) (e : Exit) (st : TState)
    (hd : st.disable = false)
    (h : (checkParams sk ps { st with stack := { args := argsOf ps } :: st.stack }).2.1 = .ANN) :
    (runProg sk w (.call .newStyle ps ret true false body e) st).2.getLast? = some (.outcome .ann) := by
  cases hcp : checkParams sk ps (pushArgs ps st) with
  | mk st2 vx =>
    obtain ⟨v, x⟩ := vx
    rw [hcp] at h
    simp only at h
    subst h
    rw [runProg_new_ANN sk w hw ps ret body e st hd st2 x hcp]
    rfl

theorem call_stage (sk : Skel) (w : WrapSkel) (hw : w.disableTestFirst = true ∧ w.annErrFirst = true)
    (ps : List Param) (ret : Option (LType × Obj)) (body : List Prog) (st : TState)
    (hd : st.disable = false) :
    let st1 : TState := { st with stack := { args := argsOf ps } :: st.stack }
    let r := runProg sk w (.call .newStyle ps ret true false body .ret) st
    ((∃ b, r.2.getLast? = some (.outcome (.tceParams b))) →
        (checkParams sk ps st1).2.1 ≠ .T ∧ Obs.bodyStart ∉ r.2) ∧
    (r.2.getLast? = some (.outcome .tceReturn) → (checkParams sk ps st1).2.1 = .T) := by
  intro st1 r
  cases hcp : checkParams sk ps (pushArgs ps st) with
  | mk st2 vx =>
    obtain ⟨v, x⟩ := vx
    simp only
    have hrej : v = .F ∨ v = .EXC .exception →
        ((∃ b, r.2.getLast? = some (.outcome (.tceParams b))) → v ≠ .T ∧ Obs.bodyStart ∉ r.2) ∧
        (r.2.getLast? = some (.outcome .tceReturn) → v = .T) := by
      intro hv
      have hr : r = newRejected sk w ps st2 := runProg_new_rej sk w hw.1 ps ret body .ret st hd st2 v x hcp hv
      rw [hr]
      have hvT : v ≠ .T := by rcases hv with rfl | rfl <;> simp
      rcases newRejected_obs sk w ps st2 with ⟨b, m, ho, _⟩ | ⟨e, ho⟩
      · rw [ho]; simp [hvT]
      · rw [ho]; simp
    cases v with
    | T =>
      have hr : r = newAccepted sk w ps ret (runProgs sk w body st2) .ret :=
        runProg_new_T sk w hw.1 ps ret body .ret st hd st2 x hcp
      obtain ⟨o, tail, ho, hno, _⟩ := newAccepted_last sk w ps ret (runProgs sk w body st2) .ret
      rw [hr, ho, getLast?_tail]
      refine ⟨?_, fun _ => rfl⟩
      rintro ⟨b, hb⟩
      simp only [Option.some.injEq, Obs.outcome.injEq] at hb
      exact absurd hb (hno b)
    | F => exact hrej (Or.inl rfl)
    | ANN =>
      have hr : r = _ := runProg_new_ANN sk w hw ps ret body .ret st hd st2 x hcp
      rw [hr]; simp
    | EXC e =>
      cases e with
      | exception => exact hrej (Or.inr rfl)
      | baseException =>
        have hr : r = _ := runProg_new_base sk w hw.1 ps ret body .ret st hd st2 x hcp
        rw [hr]; simp

theorem runProgs_nil (sk : Skel) (w : WrapSkel) (st : TState) : runProgs sk w [] st = (st, []) := by
  rw [runProgs]

theorem call_outcome_iff (sk : Skel) (w : WrapSkel) (hw : w.disableTestFirst = true ∧ w.annErrFirst = true)
    (ps : List Param) (r : Param) (st : TState) (hd : st.disable = false) (hf : st.flatten = false)
    (hps : ∀ p ∈ ps ++ [r], ∃ cls a, p.ty = .arr cls a) :
    let l := (ps ++ ps ++ [r]).map Param.asArr
    let v := (checkSeq sk.arrayCatch st.tp l { args := argsOf ps }).1
    let o := (runProg sk w (.call .newStyle ps (some (r.ty, r.val)) true false [] .ret) st).2.getLast?
    (v = .T → o = some (.outcome .returned)) ∧
    (v = .F → o = some (.outcome .tceReturn) ∨ ∃ b, o = some (.outcome (.tceParams b))) ∧
    (v = .ANN → o = some (.outcome .ann)) := by
  obtain ⟨stack, tpv, fl, dis⟩ := st
  simp only at hd hf
  subst hd hf
  have hps1 : ∀ p ∈ ps, ∃ cls a, p.ty = .arr cls a := fun p hp => hps p (by simp [hp])
  obtain ⟨cls, a, hty⟩ := hps r (by simp)
  simp only [List.map_append, List.map_cons, List.map_nil, asArr_arr r cls a hty]
  generalize hm0 : ({ args := argsOf ps } : Memo) = m0
  have hpush : pushArgs ps { stack := stack, tp := tpv, flatten := false, disable := false } =
      topState m0 stack tpv false := by rw [← hm0]
  -- first pass
  obtain ⟨x1, hcp1⟩ := checkParams_full sk stack tpv false ps m0 hps1
  rw [← hpush] at hcp1
  cases hs1 : checkSeq sk.arrayCatch tpv (ps.map Param.asArr) m0 with
  | mk v1 m1 =>
    rw [hs1] at hcp1
    simp only at hcp1
    by_cases hv1 : v1 = .T
    · subst hv1
      rw [List.append_assoc, checkSeq_append_T sk.arrayCatch tpv (ps.map Param.asArr) _ m0 m1 hs1]
      rw [runProg_new_T sk w hw.1 ps _ [] .ret _ rfl _ x1 hcp1, runProgs_nil]
      -- second pass
      obtain ⟨x2, hcp2⟩ := checkParams_full sk stack tpv false ps m1 hps1
      cases hs2 : checkSeq sk.arrayCatch tpv (ps.map Param.asArr) m1 with
      | mk v2 m2 =>
        rw [hs2] at hcp2
        simp only at hcp2
        by_cases hv2 : v2 = .T
        · subst hv2
          rw [checkSeq_append_T sk.arrayCatch tpv (ps.map Param.asArr) _ m1 m2 hs2]
          cases hi : instancecheck sk.arrayCatch false tpv a (r.val.toArr cls) m2 with
          | mk v3 m3 =>
            have hon := onTop_param sk r cls a hty m2 stack tpv false v3 m3 hi
            cases v3 with
            | T => simp [checkSeq, hi, newAccepted, hcp2, hon]
            | F => simp [checkSeq, hi, newAccepted, hcp2, hon]
            | ANN => simp [checkSeq, hi, newAccepted, hcp2, hon, hw.2]
            | EXC e => simp [checkSeq, hi]
        · rw [checkSeq_append_stop sk.arrayCatch tpv (ps.map Param.asArr) _ m1 (by rw [hs2]; exact hv2), hs2]
          cases v2 with
          | T => exact absurd rfl hv2
          | F => simp [newAccepted, hcp2]
          | ANN => simp [newAccepted, hcp2, hw.2]
          | EXC e => simp
    · rw [List.append_assoc, checkSeq_append_stop sk.arrayCatch tpv (ps.map Param.asArr) _ m0 (by rw [hs1]; exact hv1), hs1]
      cases v1 with
      | T => exact absurd rfl hv1
      | F =>
        rw [hpush] at hcp1
        obtain ⟨M, hst, hpa, _⟩ := blame_aux sk stack tpv false ps m0 hps1 _ x1 hcp1
        rw [← hpush] at hcp1
        rw [runProg_new_rej sk w hw.1 ps _ [] .ret _ rfl _ .F x1 hcp1 (Or.inl rfl)]
        rw [hst]
        simp [newRejected, hpa]
      | ANN =>
        rw [runProg_new_ANN sk w hw ps _ [] .ret _ rfl _ x1 hcp1]
        simp
      | EXC e => simp

end JV
