/-
`_MetaPyTree.__instancecheck__` and `_MetaPyTree._check`, translated from the current source on every run
(harness/translate_tree.py -> Generated/TreeCode.lean), are `pytreeInstancecheck` of the model (Model/PyTree.lean)
with every structural fact `true`: for every value, every leaf check that hands the flatten-mode flag back as it
found it (otherwise arbitrary: it may bind, answer False, raise anything), every structure string, every thread
state, inside or outside a context. The proof scripts only split on what the code can look at and compute, so a
meaning-preserving restructuring of the source is re-proved as it is, while a change of meaning (the snapshot taken
after flattening, the flag released outside the `finally`, the label cleared by a PyTree that did not set it, a
`return False` without the rollback, the structure step after the leaf loop) makes them fail.
Used by Properties/C04, C08, C12, C16. Core Lean only.
-/
import JaxVerif.Generated.TreeCode
import JaxVerif.Lemmas.TreeDsl

namespace JV
set_option linter.unusedSimpArgs false

abbrev goodSkel (ac : Catch) : Skel := ⟨ac, .baseException, true, true, true, true⟩

/-- one round of the (first) leaf loop of the translated `_check` is one round of the model's, wherever that loop is used -/
theorem source_tree_loop_body (env : TEnv) (cr : TSt → TRes) (i : Nat) (x : Obj) (s : TSt)
    (hp : s.preds = some env.leafAny) (hg : guardHolds Generated.checkLoopGuard env) :
    Generated.checkLoopBody.run env cr { s with cur := some (i, x) } = leafStepSpec env i x s := by
  unfold Generated.checkLoopBody
  unfold leafStepSpec leafCheckOf
  cases hS : env.S with
  | none =>
    first
    | (exfalso; revert hg; simp [Generated.checkLoopGuard, guardHolds, hS]; done)
    | (cases hA : env.leafAny with
       | true => simp [TStmt.run, TCond.eval, hS, hA, hp]
       | false =>
         generalize hc : env.leafCheck x s.st = r
         obtain ⟨st2, v⟩ := r
         cases v <;> simp [TStmt.run, TCond.eval, hS, hA, hp, hc])
  | some str =>
    first
    | (exfalso; revert hg; simp [Generated.checkLoopGuard, guardHolds, hS]; done)
    | (by_cases htp : s.st.tp.isSome = true
       · simp [TStmt.run, TCond.eval, hS, htp]
       · cases hA : env.leafAny with
         | true => simp [TStmt.run, TCond.eval, hS, hA, hp, htp]
         | false =>
           generalize hc : env.leafCheck x { s.st with tp := some (i, str) } = r
           obtain ⟨st2, v⟩ := r
           cases v <;> simp [TStmt.run, TCond.eval, hS, hA, hp, hc, htp])

/-- the same for the second loop (the same loop again when the source has only one) -/
theorem source_tree_loop_body2 (env : TEnv) (cr : TSt → TRes) (i : Nat) (x : Obj) (s : TSt)
    (hp : s.preds = some env.leafAny) (hg : guardHolds Generated.checkLoopGuard2 env) :
    Generated.checkLoopBody2.run env cr { s with cur := some (i, x) } = leafStepSpec env i x s := by
  unfold Generated.checkLoopBody2
  unfold leafStepSpec leafCheckOf
  cases hS : env.S with
  | none =>
    first
    | (exfalso; revert hg; simp [Generated.checkLoopGuard2, guardHolds, hS]; done)
    | (cases hA : env.leafAny with
       | true => simp [TStmt.run, TCond.eval, hS, hA, hp]
       | false =>
         generalize hc : env.leafCheck x s.st = r
         obtain ⟨st2, v⟩ := r
         cases v <;> simp [TStmt.run, TCond.eval, hS, hA, hp, hc])
  | some str =>
    first
    | (exfalso; revert hg; simp [Generated.checkLoopGuard2, guardHolds, hS]; done)
    | (by_cases htp : s.st.tp.isSome = true
       · simp [TStmt.run, TCond.eval, hS, htp]
       · cases hA : env.leafAny with
         | true => simp [TStmt.run, TCond.eval, hS, hA, hp, htp]
         | false =>
           generalize hc : env.leafCheck x { s.st with tp := some (i, str) } = r
           obtain ⟨st2, v⟩ := r
           cases v <;> simp [TStmt.run, TCond.eval, hS, hA, hp, hc, htp])

/-- the loops of the translated `_check` are the model's `leafLoop` -/
theorem source_tree_loop (env : TEnv) (ac : Catch) (cr : TSt → TRes) (ls : List Obj) (s : TSt)
    (hp : s.preds = some env.leafAny) (hg : guardHolds Generated.checkLoopGuard env) :
    runFor (fun s' => Generated.checkLoopBody.run env cr s') ls 0 s
      = loopRes s (leafLoop (goodSkel ac) (leafCheckOf env) env.S ls 0 s.st) :=
  runFor_leafLoop env (goodSkel ac) rfl _ (fun i x s' h => source_tree_loop_body env cr i x s' h hg) ls 0 s hp

theorem source_tree_loop2 (env : TEnv) (ac : Catch) (cr : TSt → TRes) (ls : List Obj) (s : TSt)
    (hp : s.preds = some env.leafAny) (hg : guardHolds Generated.checkLoopGuard2 env) :
    runFor (fun s' => Generated.checkLoopBody2.run env cr s') ls 0 s
      = loopRes s (leafLoop (goodSkel ac) (leafCheckOf env) env.S ls 0 s.st) :=
  runFor_leafLoop env (goodSkel ac) rfl _ (fun i x s' h => source_tree_loop_body2 env cr i x s' h hg) ls 0 s hp

theorem pytreeInstancecheck_unfold (sk : Skel) (lc : Obj → CState → CState × Verdict) (la : Bool) (S : Option String)
    (x : Obj) (st : CState) :
    pytreeInstancecheck sk lc la S x st =
      if objIsNone x then (st, .T)
      else
        match pytreeCore sk lc la S x (if st.noCtx then { st with memo := {} } else st) with
        | (st1, .T) => (if st.noCtx then { st1 with memo := st.memo } else st1, .T)
        | (st1, .F) => ({ st1 with memo := st.memo }, .F)
        | (st1, .ANN) => ({ st1 with memo := st.memo }, .ANN)
        | (st1, .EXC e) =>
          if sk.pytreeCatch.covers e || st.noCtx then ({ st1 with memo := st.memo }, .EXC e)
          else (st1, .EXC e) := by
  cases x <;> rfl

macro "tree_setup" : tactic => `(tactic| (
  simp only [TStmt.run, TCond.eval, TSt.flattenPred, *, Bool.false_eq_true, if_false, if_true,
    Option.isSome_none, Option.isSome_some, Bool.not_false, Bool.not_true, beq_self_eq_true, Option.isNone_none,
    Option.isNone_some, pytreeCore, Option.map_some, Bool.true_and, Bool.and_true, Bool.and_false]))

macro "tree_loop" : tactic => `(tactic| (
  generalize leafLoop (goodSkel _) _ _ _ 0 _ = L
  obtain ⟨st4, v4⟩ := L
  cases v4 <;> first
    | simp [loopRes, TCls.covers, Catch.covers]
    | (rename_i e; cases e <;> simp [loopRes, TCls.covers, Catch.covers])))

set_option maxHeartbeats 8000000 in
theorem source_tree_instancecheck (env : TEnv) (ac : Catch) (hf : FlattenKept env.leafCheck) (st : CState) :
    runInstancecheck env Generated.instancecheckCode Generated.checkCode st =
      some (if env.bare then (st, .T)
            else pytreeInstancecheck (goodSkel ac) env.leafCheck env.leafAny env.S env.x st) := by
  cases hb : env.bare with
  | true =>
    obtain ⟨m, tp, fl, nc⟩ := st
    cases nc <;> simp [runInstancecheck, Generated.instancecheckCode, TStmt.run, TCond.eval, hb]
  | false =>
    rw [pytreeInstancecheck_unfold]
    cases hn : objIsNone env.x with
    | true =>
      obtain ⟨m, tp, fl, nc⟩ := st
      cases nc <;> simp [runInstancecheck, Generated.instancecheckCode, TStmt.run, TCond.eval, hb, hn]
    | false =>
      simp only [Bool.false_eq_true, if_false]
      unfold runInstancecheck Generated.instancecheckCode Generated.checkCode
      obtain ⟨m, tp, fl, nc⟩ := st
      cases hS : env.S with
      | none =>
        cases nc <;> cases hA : env.leafAny <;> tree_setup
        all_goals (
          generalize hfr : flat env.leafCheck _ env.x _ = fr
          have hfl2 : fr.1.flatten = _ := hfr ▸ flat_flattenKept env.leafCheck hf _ _ _
          have hro : fr.2.RaisedOk := hfr ▸ flat_raisedOk env.leafCheck _ _ _
          obtain ⟨⟨m1, tp1, fl1, nc1⟩, frr⟩ := fr
          simp only at hfl2
          subst hfl2
          obtain ⟨leaves, d⟩ | v := frr
          · clear hfr hro
            obtain ⟨ms, mv, mp, ma⟩ := m1
            cases fl <;> simp only [Option.map_some, Bool.not_true, Bool.not_false]
            all_goals (
              first
              | rw [source_tree_loop env ac _ leaves _ (by simp [hA]) (by simp [Generated.checkLoopGuard, guardHolds, hS])]
              | rw [source_tree_loop2 env ac _ leaves _ (by simp [hA]) (by simp [Generated.checkLoopGuard2, guardHolds, hS])]
              simp only [leafCheckOf, hA, hS, if_true, if_false, Bool.false_eq_true]
              tree_loop)
          · cases v <;> first | exact hro.elim | (cases fl <;> simp [TCls.covers, Catch.covers]) | (rename_i e; cases e <;> cases fl <;> simp [TCls.covers, Catch.covers]))
      | some str =>
        cases nc <;> cases hA : env.leafAny <;> tree_setup
        all_goals (
          generalize hfr : flat env.leafCheck _ env.x _ = fr
          have hfl2 : fr.1.flatten = _ := hfr ▸ flat_flattenKept env.leafCheck hf _ _ _
          have hro : fr.2.RaisedOk := hfr ▸ flat_raisedOk env.leafCheck _ _ _
          obtain ⟨⟨m1, tp1, fl1, nc1⟩, frr⟩ := fr
          simp only at hfl2
          subst hfl2
          obtain ⟨leaves, d⟩ | v := frr
          · clear hfr hro
            obtain ⟨ms, mv, mp, ma⟩ := m1
            cases fl <;> simp only [Option.map_some, Bool.not_true, Bool.not_false]
            all_goals (
              generalize hss : structStep str d mp = ss
              cases ss with
              | ok pm =>
                simp only []
                first
                | rw [source_tree_loop env ac _ leaves _ (by simp [hA]) (by simp [Generated.checkLoopGuard, guardHolds, hS])]
                | rw [source_tree_loop2 env ac _ leaves _ (by simp [hA]) (by simp [Generated.checkLoopGuard2, guardHolds, hS])]
                simp only [leafCheckOf, hA, hS, if_true, if_false, Bool.false_eq_true]
                tree_loop
              | fail => simp [TCls.covers, Catch.covers]
              | annErr => simp [TCls.covers, Catch.covers]
              | exc e => cases e <;> simp [TCls.covers, Catch.covers])
          · cases v <;> first | exact hro.elim | (cases fl <;> simp [TCls.covers, Catch.covers]) | (rename_i e; cases e <;> cases fl <;> simp [TCls.covers, Catch.covers]))
end JV
