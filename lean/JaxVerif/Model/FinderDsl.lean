/-
A small language for `_JaxtypingFinder.should_instrument` and `_JaxtypingFinder.find_spec` (jaxtyping/_import_hook.py).
The translator (harness/translate_hook.py) turns the current source of the two methods into `Generated/HookCode.lean`;
`Properties/C11.lean` proves that the translated `should_instrument` is the model's dotted-prefix predicate for every list
of hooked names and every module name, and that the translated `find_spec` claims a module exactly when that predicate
holds and the wrapped path finder found a module loaded from source. Core Lean only.
-/
import JaxVerif.Model.HookScope

namespace JV

inductive FCond
  | eqModule               -- `module_name == module`
  | startsWithDotted       -- `module_name.startswith(module + ".")`
  | should                 -- `self.should_instrument(fullname)`
  | specIsNone             -- `spec is None`
  | isSourceLoader         -- `isinstance(spec.loader, SourceFileLoader)`
  | not (c : FCond)
  | and (c d : FCond)      -- short-circuit
  | or (c d : FCond)
  | unknown
  deriving Repr

inductive FStmt
  | skip
  | seq (a b : FStmt)
  | ite (c : FCond) (t e : FStmt)
  | forModules (body : FStmt)        -- `for module in self.modules: body`
  | retBool (b : Bool)
  | findOrig                         -- `spec = self._original_pathfinder.find_spec(fullname, path, target)`
  | wrapLoader                       -- `spec.loader = _JaxtypingLoader(spec.loader.name, spec.loader.path, typechecker=self._typechecker)`
  | retSpec                          -- `return spec`
  | retNone                          -- `return None`
  | unknown
  deriving Repr

structure FEnv where
  modules : List MName
  name : MName
  /-- what the wrapped path finder answers: `none` = no such module, `some b` = found, `b` = its loader is a SourceFileLoader -/
  orig : Option Bool
  /-- what `self.should_instrument(fullname)` answers (a method call: the other translated method) -/
  should : Bool

structure FSt where
  cur : Option MName := none         -- the loop variable
  spec : Option (Option Bool) := none  -- `spec`, once assigned
  wrapped : Bool := false

inductive FRes
  | normal (s : FSt)
  | retB (b : Bool)
  | retSpecR (wrapped : Bool)        -- a spec is returned; `wrapped` = its loader is the jaxtyping loader
  | retNoneR
  | crash

def FCond.eval (env : FEnv) (s : FSt) : FCond → Option Bool
  | .eqModule => s.cur.map fun h => env.name == h
  | .startsWithDotted => s.cur.map fun h => (h ++ ['.']).isPrefixOf env.name
  | .should => some env.should
  | .specIsNone => s.spec.map fun sp => sp.isNone
  | .isSourceLoader => (match s.spec with | some (some b) => some b | _ => none)   -- `spec.loader` of None: AttributeError
  | .not c => (c.eval env s).map (!·)
  | .and c d => (match c.eval env s with | some true => d.eval env s | o => o)
  | .or c d => (match c.eval env s with | some false => d.eval env s | o => o)
  | .unknown => none

def FStmt.run (env : FEnv) (loop : FStmt → FSt → FRes) : FStmt → FSt → FRes
  | .skip, s => .normal s
  | .seq a b, s => (match a.run env loop s with | .normal s' => b.run env loop s' | r => r)
  | .ite c t e, s =>
    (match c.eval env s with
     | none => .crash
     | some true => t.run env loop s
     | some false => e.run env loop s)
  | .forModules body, s => loop body s
  | .retBool b, _ => .retB b
  | .findOrig, s => .normal { s with spec := some env.orig }
  | .wrapLoader, s => (match s.spec with | some (some true) => .normal { s with wrapped := true } | _ => .crash)
  | .retSpec, s => (match s.spec with | some (some _) => .retSpecR s.wrapped | _ => .crash)
  | .retNone, _ => .retNoneR
  | .unknown, _ => .crash

/-- the `for module in self.modules` loop (no nested loops) -/
def runModules (env : FEnv) (body : FStmt) : List MName → FSt → FRes
  | [], s => .normal { s with cur := none }
  | h :: hs, s =>
    match body.run env (fun _ _ => .crash) { s with cur := some h } with
    | .normal s' => runModules env body hs s'
    | r => r

def runMethod (env : FEnv) (code : FStmt) : FRes :=
  code.run env (fun body s => runModules env body env.modules s) {}

/-- `should_instrument(module_name)`: `none` = outside the fragment / returns None -/
def runShould (code : FStmt) (modules : List MName) (m : MName) : Option Bool :=
  match runMethod { modules := modules, name := m, orig := none, should := false } code with
  | .retB b => some b
  | _ => none

/-- `find_spec(fullname, …)`: does this finder claim the module (return a spec whose loader is the jaxtyping loader)?
    `none` = outside the fragment, or a spec with the ORIGINAL loader is returned (the module would load unchanged through
    this finder, shadowing later hooks) -/
def runFindSpec (code : FStmt) (should : Bool) (orig : Option Bool) : Option Bool :=
  match runMethod { modules := [], name := [], orig := orig, should := should } code with
  | .retSpecR true => some true
  | .retNoneR => some false
  | _ => none

end JV
