/-
Helper lemmas for C05: the context stack is balanced by every program, a call / context block
gives the caller's stack back exactly, and what happens inside does not depend on the callers'
frames.
Core Lean only.
-/
import JaxVerif.Lemmas.CallStep

namespace JV

/-! ### balanced: same depth, same frames below the top -/

def Bal (a b : TState) : Prop :=
  b.stack.length = a.stack.length ∧ b.stack.drop 1 = a.stack.drop 1

theorem Bal.refl (a : TState) : Bal a a := ⟨rfl, rfl⟩

theorem Bal.trans {a b c : TState} (h1 : Bal a b) (h2 : Bal b c) : Bal a c :=
  ⟨h2.1.trans h1.1, h2.2.trans h1.2⟩

theorem Bal.of_stack_eq {a b : TState} (h : b.stack = a.stack) : Bal a b := by
  unfold Bal; rw [h]; exact ⟨rfl, rfl⟩

theorem onTop_bal (st : TState) (f : CState → CState × Verdict) : Bal st (onTop st f).1 := by
  unfold onTop Bal
  split
  · rename_i h; dsimp only; rw [h]; exact ⟨rfl, rfl⟩
  · rename_i m rest h; dsimp only; rw [h]; exact ⟨rfl, rfl⟩

theorem onTop_bal' {a b : TState} (f : CState → CState × Verdict) (h : Bal a b) :
    Bal a (onTop b f).1 := h.trans (onTop_bal b f)

theorem checkParams_bal (sk : Skel) : ∀ (ps : List Param) (st : TState),
    Bal st (checkParams sk ps st).1
  | [], st => by rw [checkParams]; exact Bal.refl st
  | p :: ps, st => by
    rw [checkParams]
    have h1 := onTop_bal st (checkL sk p.ty p.val)
    generalize onTop st (checkL sk p.ty p.val) = r at h1
    obtain ⟨st1, v⟩ := r
    cases v <;> try exact h1
    exact h1.trans (checkParams_bal sk ps st1)

theorem checkParams_bal' (sk : Skel) (ps : List Param) {a b : TState} (h : Bal a b) :
    Bal a (checkParams sk ps b).1 := h.trans (checkParams_bal sk ps b)

theorem problemArg_bal (sk : Skel) : ∀ (ps : List Param) (st : TState),
    Bal st (problemArg sk ps st).1
  | [], st => by rw [problemArg]; exact Bal.refl st
  | p :: ps, st => by
    rw [problemArg]
    have h1 := onTop_bal st (checkL sk p.ty p.val)
    generalize onTop st (checkL sk p.ty p.val) = r at h1
    obtain ⟨st1, v⟩ := r
    cases v with
    | T => exact h1.trans (problemArg_bal sk ps st1)
    | F => exact h1
    | ANN => exact h1
    | EXC e => cases e <;> exact h1

theorem problemArg_bal' (sk : Skel) (ps : List Param) {a b : TState} (h : Bal a b) :
    Bal a (problemArg sk ps b).1 := h.trans (problemArg_bal sk ps b)

/-- a frame pushed, anything balanced, the frame popped: the stack is what it was -/
theorem popStack_push_exact {m : Memo} {st x : TState} (h : Bal (pushFrame m st) x) :
    (popStack x).stack = st.stack := h.2

theorem popAfter_push_exact {m : Memo} {st x : TState} {b : Bool} (o : CallOutcome)
    (hb : b = true) (h : Bal (pushFrame m st) x) : (popAfter b o x).stack = st.stack := by
  subst hb
  exact h.2

theorem newRetFail_exact {m : Memo} {st x : TState} (w : WrapSkel) (pre : List Obs) (v : Verdict)
    (hb : w.newPopInFinally = true) (h : Bal (pushFrame m st) x) :
    (newRetFail w pre v x).1.stack = st.stack := by
  unfold newRetFail
  split <;> exact popAfter_push_exact _ hb h

theorem newParamFail_exact {m : Memo} {st x : TState} (sk : Skel) (w : WrapSkel) (ps : List Param)
    (hb : w.newPopInFinally = true) (h : Bal (pushFrame m st) x) :
    (newParamFail sk w ps x).1.stack = st.stack := by
  unfold newParamFail
  split <;> exact popAfter_push_exact _ hb (problemArg_bal' sk ps h)

/-- one backward step of a proof that a composite of the primitive steps is balanced / exact -/
macro "bal_step" hB:term : tactic => `(tactic| with_reducible first
  | assumption
  | rfl
  | contradiction
  | apply Bal.refl
  | apply popAfter_push_exact
  | apply popStack_push_exact
  | apply newRetFail_exact
  | apply newParamFail_exact
  | apply checkParams_bal'
  | apply problemArg_bal'
  | apply onTop_bal'
  | apply $hB)

theorem callStep_exact (sk : Skel) (w : WrapSkel) (hw : w.Good) (k : CallKind) (ps : List Param)
    (ret : Option (LType × Obj)) (bindOk noTc : Bool) (B : TState → TState × List Obs)
    (hB : ∀ a b, Bal a b → Bal a (B b).1) (e : Exit) (st : TState)
    (hnb : k = .newStyle → (w.disableTestFirst && (st.disable || noTc)) = false) :
    (callStep sk w k ps ret bindOk noTc B e st).1.stack = st.stack := by
  obtain ⟨h1, h2, h3, h4, h5⟩ := hw
  unfold callStep
  cases k with
  | noChecker =>
    dsimp only
    repeat' split
    all_goals repeat bal_step hB
  | oldStyle =>
    dsimp only
    repeat' split
    all_goals repeat bal_step hB
  | newStyle =>
    dsimp only
    rw [hnb rfl]
    simp only [Bool.false_eq_true, if_false]
    repeat' split
    all_goals repeat bal_step hB

/-- a new-style call with checks disabled runs as the bare function -/
theorem callStep_bare (sk : Skel) (w : WrapSkel) (ps : List Param)
    (ret : Option (LType × Obj)) (bindOk noTc : Bool) (B : TState → TState × List Obs)
    (e : Exit) (st : TState) (hb : (w.disableTestFirst && (st.disable || noTc)) = true) :
    callStep sk w .newStyle ps ret bindOk noTc B e st =
      if !bindOk then (st, [.outcome .bindError])
      else ((B st).1, [.bodyStart] ++ (B st).2 ++ [.outcome (exitOutcome e)]) := by
  unfold callStep
  dsimp only
  rw [if_pos hb]

theorem callStep_bal (sk : Skel) (w : WrapSkel) (hw : w.Good) (k : CallKind) (ps : List Param)
    (ret : Option (LType × Obj)) (bindOk noTc : Bool) (B : TState → TState × List Obs)
    (hB : ∀ st, Bal st (B st).1) (e : Exit) (st : TState) :
    Bal st (callStep sk w k ps ret bindOk noTc B e st).1 := by
  have hB' : ∀ a b, Bal a b → Bal a (B b).1 := fun a b h => h.trans (hB b)
  by_cases hk : k = .newStyle ∧ (w.disableTestFirst && (st.disable || noTc)) = true
  · obtain ⟨rfl, hb⟩ := hk
    rw [callStep_bare sk w ps ret bindOk noTc B e st hb]
    split
    · exact Bal.refl st
    · exact hB st
  · apply Bal.of_stack_eq
    apply callStep_exact sk w hw k ps ret bindOk noTc B hB' e st
    intro hk'
    cases hc : (w.disableTestFirst && (st.disable || noTc))
    · rfl
    · exact absurd ⟨hk', hc⟩ hk

theorem ctxStep_exact (w : WrapSkel) (hw : w.Good) (B : TState → TState × List Obs)
    (hB : ∀ st, Bal st (B st).1) (e : Exit) (st : TState) :
    (ctxStep w B e st).1.stack = st.stack := by
  obtain ⟨h1, h2, h3, h4, h5⟩ := hw
  unfold ctxStep
  dsimp only
  rw [h3, Bool.true_or, if_pos rfl]
  exact popStack_push_exact (hB _)

/-! ### whole programs -/

mutual
theorem runProg_bal (sk : Skel) (w : WrapSkel) (hw : w.Good) : ∀ (p : Prog) (st : TState),
    Bal st (runProg sk w p st).1
  | .check l x, st => by rw [runProg]; exact onTop_bal st _
  | .print, st => by rw [runProg]; exact Bal.refl st
  | .setDisable b, st => by rw [runProg]; exact Bal.refl st
  | .ctx body e, st => by
    rw [runProg_ctx_eq]
    exact Bal.of_stack_eq (ctxStep_exact w hw _ (runProgs_bal sk w hw body) e st)
  | .call k ps ret bindOk noTc body e, st => by
    rw [runProg_call_eq]
    exact callStep_bal sk w hw k ps ret bindOk noTc _ (runProgs_bal sk w hw body) e st
theorem runProgs_bal (sk : Skel) (w : WrapSkel) (hw : w.Good) : ∀ (ps : List Prog) (st : TState),
    Bal st (runProgs sk w ps st).1
  | [], st => by rw [runProgs]; exact Bal.refl st
  | p :: ps, st => by
    rw [runProgs]
    exact (runProg_bal sk w hw p st).trans (runProgs_bal sk w hw ps _)
end

theorem runProgs_balanced (sk : Skel) (w : WrapSkel) (hw : w.Good) (ps : List Prog) (st : TState) :
    (runProgs sk w ps st).1.stack.length = st.stack.length ∧
    (runProgs sk w ps st).1.stack.drop 1 = st.stack.drop 1 :=
  runProgs_bal sk w hw ps st

theorem runProg_ctx_exact (sk : Skel) (w : WrapSkel) (hw : w.Good) (body : List Prog) (e : Exit)
    (st : TState) : (runProg sk w (.ctx body e) st).1.stack = st.stack := by
  rw [runProg_ctx_eq]
  exact ctxStep_exact w hw _ (runProgs_bal sk w hw body) e st

theorem runProg_call_exact (sk : Skel) (w : WrapSkel) (hw : w.Good) (k : CallKind)
    (ps : List Param) (ret : Option (LType × Obj)) (bindOk noTc : Bool) (body : List Prog)
    (e : Exit) (st : TState)
    (hen : k = .newStyle → w.disableTestFirst = true → st.disable = false ∧ noTc = false) :
    (runProg sk w (.call k ps ret bindOk noTc body e) st).1.stack = st.stack := by
  rw [runProg_call_eq]
  apply callStep_exact sk w hw k ps ret bindOk noTc _
    (fun a b h => h.trans (runProgs_bal sk w hw body b)) e st
  intro hk
  cases hd : w.disableTestFirst
  · rfl
  · obtain ⟨h1, h2⟩ := hen hk hd
    rw [h1, h2]
    rfl

theorem runProg_check_toplevel (sk : Skel) (w : WrapSkel) (l : LType) (x : Obj) (st : TState)
    (h : st.stack = []) : (runProg sk w (.check l x) st).1.stack = [] := by
  rw [runProg]
  have hb := (onTop_bal st (checkL sk l x)).1
  rw [h] at hb
  exact List.eq_nil_of_length_eq_zero hb

/-! ### the callee is fresh -/

/-- same transient flags and same `disable` switch -/
def FlagsEq (a b : TState) : Prop :=
  a.tp = b.tp ∧ a.flatten = b.flatten ∧ a.disable = b.disable

/-- two thread states that agree on everything a check or a `print_bindings()` can see -/
def Rel (a b : TState) : Prop := FlagsEq a b ∧ a.stack.head? = b.stack.head?

theorem Rel.push {a b : TState} (h : FlagsEq a b) (m : Memo) :
    Rel (pushFrame m a) (pushFrame m b) := ⟨h, rfl⟩

theorem onTop_rel {a b : TState} (f : CState → CState × Verdict) (h : Rel a b) :
    (onTop b f).2 = (onTop a f).2 ∧ Rel (onTop a f).1 (onTop b f).1 := by
  obtain ⟨sa, tpa, fla, da⟩ := a
  obtain ⟨sb, tpb, flb, db⟩ := b
  obtain ⟨⟨h1, h2, h3⟩, h4⟩ := h
  dsimp only at h1 h2 h3 h4
  subst h1 h2 h3
  cases sa with
  | nil =>
    cases sb with
    | nil => exact ⟨rfl, ⟨rfl, rfl, rfl⟩, rfl⟩
    | cons m2 r2 => simp at h4
  | cons m1 r1 =>
    cases sb with
    | nil => simp at h4
    | cons m2 r2 =>
      simp only [List.head?_cons, Option.some.injEq] at h4
      subst h4
      exact ⟨rfl, ⟨rfl, rfl, rfl⟩, rfl⟩

theorem topMemo_rel {a b : TState} (h : Rel a b) : topMemo b = topMemo a := by
  obtain ⟨sa, tpa, fla, da⟩ := a
  obtain ⟨sb, tpb, flb, db⟩ := b
  have h4 := h.2
  dsimp only at h4
  unfold topMemo
  dsimp only
  cases sa <;> cases sb <;> simp_all

theorem checkParams_rel (sk : Skel) : ∀ (ps : List Param) {a b : TState}, Rel a b →
    (checkParams sk ps b).2 = (checkParams sk ps a).2 ∧
      Rel (checkParams sk ps a).1 (checkParams sk ps b).1
  | [], a, b, h => by rw [checkParams, checkParams]; exact ⟨rfl, h⟩
  | p :: ps, a, b, h => by
    rw [checkParams, checkParams]
    obtain ⟨h1, h2⟩ := onTop_rel (checkL sk p.ty p.val) h
    generalize onTop a (checkL sk p.ty p.val) = ra at h1 h2
    generalize onTop b (checkL sk p.ty p.val) = rb at h1 h2
    obtain ⟨a1, va⟩ := ra
    obtain ⟨b1, vb⟩ := rb
    dsimp only at h1 h2
    subst h1
    cases vb with
    | T => exact checkParams_rel sk ps h2
    | F => exact ⟨rfl, h2⟩
    | ANN => exact ⟨rfl, h2⟩
    | EXC e => exact ⟨rfl, h2⟩

theorem problemArg_rel (sk : Skel) : ∀ (ps : List Param) {a b : TState}, Rel a b →
    (problemArg sk ps b).2 = (problemArg sk ps a).2 ∧
      Rel (problemArg sk ps a).1 (problemArg sk ps b).1
  | [], a, b, h => by rw [problemArg, problemArg]; exact ⟨rfl, h⟩
  | p :: ps, a, b, h => by
    rw [problemArg, problemArg]
    obtain ⟨h1, h2⟩ := onTop_rel (checkL sk p.ty p.val) h
    generalize onTop a (checkL sk p.ty p.val) = ra at h1 h2
    generalize onTop b (checkL sk p.ty p.val) = rb at h1 h2
    obtain ⟨a1, va⟩ := ra
    obtain ⟨b1, vb⟩ := rb
    dsimp only at h1 h2
    subst h1
    cases vb with
    | T => exact problemArg_rel sk ps h2
    | F => exact ⟨rfl, h2⟩
    | ANN => exact ⟨rfl, h2⟩
    | EXC e => cases e <;> exact ⟨rfl, h2⟩

theorem popAfter_flags {a b : TState} (f : Bool) (o : CallOutcome) (h : FlagsEq a b) :
    FlagsEq (popAfter f o a) (popAfter f o b) := by
  unfold popAfter
  split <;> exact h

/-- leaf of a call: same observations, both runs pop (or not) alike -/
theorem leaf_pop {a b : TState} (f : Bool) (o : CallOutcome) (obs : List Obs) (h : Rel a b) :
    (popAfter f o b, obs).2 = (popAfter f o a, obs).2 ∧
      FlagsEq (popAfter f o a, obs).1 (popAfter f o b, obs).1 :=
  ⟨rfl, popAfter_flags f o h.1⟩

theorem newRetFail_sim {a b : TState} (w : WrapSkel) (pre : List Obs) (v : Verdict) (h : Rel a b) :
    (newRetFail w pre v b).2 = (newRetFail w pre v a).2 ∧
      FlagsEq (newRetFail w pre v a).1 (newRetFail w pre v b).1 := by
  unfold newRetFail
  rw [topMemo_rel h]
  split <;> exact ⟨rfl, popAfter_flags _ _ h.1⟩

theorem newParamFail_sim {a b : TState} (sk : Skel) (w : WrapSkel) (ps : List Param) (h : Rel a b) :
    (newParamFail sk w ps b).2 = (newParamFail sk w ps a).2 ∧
      FlagsEq (newParamFail sk w ps a).1 (newParamFail sk w ps b).1 := by
  obtain ⟨h1, h2⟩ := problemArg_rel sk ps h
  unfold newParamFail
  rw [h1, topMemo_rel h2]
  split <;> exact ⟨rfl, popAfter_flags _ _ h2.1⟩

/-- a call that opens a context: the observations and the flags afterwards depend only on the
    flags before, not on the caller's stack -/
theorem callStep_sim (sk : Skel) (w : WrapSkel) (k : CallKind) (ps : List Param)
    (ret : Option (LType × Obj)) (bindOk noTc : Bool) (B : TState → TState × List Obs)
    (hB : ∀ a b, Rel a b → (B b).2 = (B a).2 ∧ Rel (B a).1 (B b).1) (e : Exit) (a b : TState)
    (hF : FlagsEq a b)
    (hnb : k = .newStyle → (w.disableTestFirst && (a.disable || noTc)) = false) :
    (callStep sk w k ps ret bindOk noTc B e b).2 = (callStep sk w k ps ret bindOk noTc B e a).2 ∧
      FlagsEq (callStep sk w k ps ret bindOk noTc B e a).1
        (callStep sk w k ps ret bindOk noTc B e b).1 := by
  have R1 : Rel (pushFrame { args := argsOf ps } a) (pushFrame { args := argsOf ps } b) :=
    Rel.push hF _
  have hF0 : FlagsEq (pushFrame {} a) (pushFrame {} b) := hF
  obtain ⟨BL1, BL2⟩ := hB _ _ R1
  obtain ⟨C21, C22⟩ := checkParams_rel sk ps R1
  obtain ⟨B31, B32⟩ := hB _ _ C22
  obtain ⟨C41, C42⟩ := checkParams_rel sk ps B32
  have O4 := fun l x => onTop_rel (checkL sk l x) B32
  have O5 := fun l x => onTop_rel (checkL sk l x) C42
  have O41 := fun l x => (O4 l x).1
  have O51 := fun l x => (O5 l x).1
  have hd : b.disable = a.disable := hF.2.2.symm
  unfold callStep
  cases k with
  | noChecker =>
    dsimp only
    simp only [BL1]
    repeat' split
    all_goals first
      | exact ⟨rfl, hF⟩
      | exact ⟨rfl, hF0⟩
      | (apply leaf_pop; assumption)
  | oldStyle =>
    dsimp only
    simp only [C21, B31, O41]
    repeat' split
    all_goals first
      | exact ⟨rfl, hF⟩
      | exact ⟨rfl, hF0⟩
      | (apply leaf_pop; first | assumption | exact (O4 _ _).2)
  | newStyle =>
    dsimp only
    rw [hd, hnb rfl]
    simp only [Bool.false_eq_true, if_false]
    simp only [BL1, C21, B31, C41, O51]
    repeat' split
    all_goals first
      | exact ⟨rfl, hF⟩
      | exact ⟨rfl, hF0⟩
      | (apply leaf_pop; first | assumption | exact (O5 _ _).2)
      | (apply newRetFail_sim; first | assumption | exact (O5 _ _).2)
      | (apply newParamFail_sim; assumption)

theorem callStep_rel (sk : Skel) (w : WrapSkel) (hw : w.Good) (k : CallKind) (ps : List Param)
    (ret : Option (LType × Obj)) (bindOk noTc : Bool) (B : TState → TState × List Obs)
    (hB : ∀ a b, Rel a b → (B b).2 = (B a).2 ∧ Rel (B a).1 (B b).1)
    (hBal : ∀ st, Bal st (B st).1) (e : Exit) (a b : TState) (hR : Rel a b) :
    (callStep sk w k ps ret bindOk noTc B e b).2 = (callStep sk w k ps ret bindOk noTc B e a).2 ∧
      Rel (callStep sk w k ps ret bindOk noTc B e a).1
        (callStep sk w k ps ret bindOk noTc B e b).1 := by
  have hd : b.disable = a.disable := hR.1.2.2.symm
  have hBal' : ∀ x y, Bal x y → Bal x (B y).1 := fun x y h => h.trans (hBal y)
  by_cases hk : k = .newStyle ∧ (w.disableTestFirst && (a.disable || noTc)) = true
  · obtain ⟨rfl, hb⟩ := hk
    rw [callStep_bare sk w ps ret bindOk noTc B e a hb,
      callStep_bare sk w ps ret bindOk noTc B e b (by rw [hd]; exact hb)]
    obtain ⟨h1, h2⟩ := hB a b hR
    split
    · exact ⟨rfl, hR⟩
    · exact ⟨by dsimp only; rw [h1], h2⟩
  · have hnb : k = .newStyle → (w.disableTestFirst && (a.disable || noTc)) = false := by
      intro hk'
      cases hc : (w.disableTestFirst && (a.disable || noTc))
      · rfl
      · exact absurd ⟨hk', hc⟩ hk
    obtain ⟨h1, h2⟩ := callStep_sim sk w k ps ret bindOk noTc B hB e a b hR.1 hnb
    refine ⟨h1, h2, ?_⟩
    rw [callStep_exact sk w hw k ps ret bindOk noTc B hBal' e a hnb,
      callStep_exact sk w hw k ps ret bindOk noTc B hBal' e b (by rw [hd]; exact hnb)]
    exact hR.2

theorem ctxStep_sim (w : WrapSkel) (B : TState → TState × List Obs)
    (hB : ∀ a b, Rel a b → (B b).2 = (B a).2 ∧ Rel (B a).1 (B b).1) (e : Exit) (a b : TState)
    (hF : FlagsEq a b) :
    (ctxStep w B e b).2 = (ctxStep w B e a).2 ∧ FlagsEq (ctxStep w B e a).1 (ctxStep w B e b).1 := by
  obtain ⟨h1, h2⟩ := hB _ _ (Rel.push hF {})
  unfold ctxStep
  dsimp only
  rw [h1]
  refine ⟨rfl, ?_⟩
  split
  · exact h2.1
  · exact h2.1

theorem ctxStep_rel (w : WrapSkel) (hw : w.Good) (B : TState → TState × List Obs)
    (hB : ∀ a b, Rel a b → (B b).2 = (B a).2 ∧ Rel (B a).1 (B b).1)
    (hBal : ∀ st, Bal st (B st).1) (e : Exit) (a b : TState) (hR : Rel a b) :
    (ctxStep w B e b).2 = (ctxStep w B e a).2 ∧ Rel (ctxStep w B e a).1 (ctxStep w B e b).1 := by
  obtain ⟨h1, h2⟩ := ctxStep_sim w B hB e a b hR.1
  refine ⟨h1, h2, ?_⟩
  rw [ctxStep_exact w hw B hBal e a, ctxStep_exact w hw B hBal e b]
  exact hR.2

mutual
theorem runProg_rel (sk : Skel) (w : WrapSkel) (hw : w.Good) : ∀ (p : Prog) (a b : TState),
    Rel a b → (runProg sk w p b).2 = (runProg sk w p a).2 ∧
      Rel (runProg sk w p a).1 (runProg sk w p b).1
  | .check l x, a, b, h => by
    rw [runProg, runProg]
    obtain ⟨h1, h2⟩ := onTop_rel (checkL sk l x) h
    exact ⟨by dsimp only; rw [h1], h2⟩
  | .print, a, b, h => by
    rw [runProg, runProg]
    exact ⟨by dsimp only; rw [h.2], h⟩
  | .setDisable d, a, b, h => by
    rw [runProg, runProg]
    exact ⟨rfl, ⟨h.1.1, h.1.2.1, rfl⟩, h.2⟩
  | .ctx body e, a, b, h => by
    rw [runProg_ctx_eq, runProg_ctx_eq]
    exact ctxStep_rel w hw _ (runProgs_rel sk w hw body) (runProgs_bal sk w hw body) e a b h
  | .call k ps ret bindOk noTc body e, a, b, h => by
    rw [runProg_call_eq, runProg_call_eq]
    exact callStep_rel sk w hw k ps ret bindOk noTc _ (runProgs_rel sk w hw body)
      (runProgs_bal sk w hw body) e a b h
theorem runProgs_rel (sk : Skel) (w : WrapSkel) (hw : w.Good) : ∀ (ps : List Prog) (a b : TState),
    Rel a b → (runProgs sk w ps b).2 = (runProgs sk w ps a).2 ∧
      Rel (runProgs sk w ps a).1 (runProgs sk w ps b).1
  | [], a, b, h => by rw [runProgs, runProgs]; exact ⟨rfl, h⟩
  | p :: ps, a, b, h => by
    rw [runProgs, runProgs]
    obtain ⟨h1, h2⟩ := runProg_rel sk w hw p a b h
    obtain ⟨h3, h4⟩ := runProgs_rel sk w hw ps _ _ h2
    exact ⟨by dsimp only; rw [h1, h3], h4⟩
end

theorem runProg_callee_fresh (sk : Skel) (w : WrapSkel) (hw : w.Good) (p : Prog) (st₁ st₂ : TState)
    (hp : (∃ body e, p = .ctx body e) ∨
          (∃ k ps ret bindOk body e, p = .call k ps ret bindOk false body e ∧ st₁.disable = false))
    (hf : st₁.tp = st₂.tp ∧ st₁.flatten = st₂.flatten ∧ st₁.disable = st₂.disable) :
    (runProg sk w p st₁).2 = (runProg sk w p st₂).2 := by
  rcases hp with ⟨body, e, rfl⟩ | ⟨k, ps, ret, bindOk, body, e, rfl, hd⟩
  · rw [runProg_ctx_eq, runProg_ctx_eq]
    exact (ctxStep_sim w _ (runProgs_rel sk w hw body) e st₁ st₂ hf).1.symm
  · rw [runProg_call_eq, runProg_call_eq]
    refine (callStep_sim sk w k ps ret bindOk false _ (runProgs_rel sk w hw body) e st₁ st₂ hf
      ?_).1.symm
    intro _
    rw [hd]
    cases w.disableTestFirst <;> rfl

end JV
