"""Shared machinery of the /verif checks: PRNG, Lean build + audit, driver process,
evidence files, known findings, classification of outcomes.

Runs under /venv/bin/python; the real jaxtyping is imported from REPO (default /repo).
"""
from __future__ import annotations

import contextlib
import fcntl
import io
import json
import os
import re
import shutil
import subprocess
import sys
import tempfile
import threading
import time

VERIF = os.path.dirname(os.path.dirname(os.path.abspath(__file__)))
REPO = os.environ.get("VERIF_REPO", "/repo")
LEAN = os.path.join(VERIF, "lean")
GEN = os.path.join(LEAN, "JaxVerif", "Generated")
EVID = os.environ.get("VERIF_EVIDENCE_DIR") or os.path.join(VERIF, "evidence")
REPLAYS = os.environ.get("VERIF_REPLAY_DIR") or os.path.join(VERIF, "replays")
CORPUS = os.path.join(VERIF, "corpus")
PY = "/venv/bin/python"

ALLOWED_AXIOMS = {"propext", "Classical.choice", "Quot.sound"}
FORBIDDEN_RE = re.compile(
    r"\bsorry\b|\badmit\b|^axiom\s|native_decide|bv_decide|implemented_by|\bunsafe\s|maxHeartbeats\s+0"
)

if REPO not in sys.path:
    sys.path.insert(0, REPO)


class InfraError(Exception):
    """Infrastructure failure (exit 2): never a VIOLATION."""


# --------------------------------------------------------------------------- PRNG


class Rng:
    """splitmix64; every random choice of a run derives from VERIF_SEED."""

    MASK = (1 << 64) - 1

    def __init__(self, seed: int, stream: str = ""):
        s = (seed * 0x9E3779B97F4A7C15 + 0x1234567) & self.MASK
        for ch in stream.encode():
            s = ((s ^ ch) * 0xBF58476D1CE4E5B9) & self.MASK
        self.s = s

    def next(self) -> int:
        self.s = (self.s + 0x9E3779B97F4A7C15) & self.MASK
        z = self.s
        z = ((z ^ (z >> 30)) * 0xBF58476D1CE4E5B9) & self.MASK
        z = ((z ^ (z >> 27)) * 0x94D049BB133111EB) & self.MASK
        return z ^ (z >> 31)

    def below(self, n: int) -> int:
        return self.next() % n if n > 0 else 0

    def rng(self, a: int, b: int) -> int:
        return a + self.below(b - a + 1)

    def choice(self, xs):
        return xs[self.below(len(xs))]

    def chance(self, num: int, den: int) -> bool:
        return self.below(den) < num

    def shuffle(self, xs):
        xs = list(xs)
        for i in range(len(xs) - 1, 0, -1):
            j = self.below(i + 1)
            xs[i], xs[j] = xs[j], xs[i]
        return xs

    def sample(self, xs, k):
        return self.shuffle(xs)[:k]


def seed_from_env() -> int:
    try:
        return int(os.environ.get("VERIF_SEED", "0"))
    except ValueError:
        return 0


# --------------------------------------------------------------------------- Lean side


@contextlib.contextmanager
def lean_lock():
    os.makedirs(LEAN, exist_ok=True)
    with open(os.path.join(LEAN, ".lock"), "w") as fh:
        fcntl.flock(fh, fcntl.LOCK_EX)
        try:
            yield
        finally:
            fcntl.flock(fh, fcntl.LOCK_UN)


def write_if_changed(path: str, text: str) -> bool:
    try:
        with open(path) as fh:
            if fh.read() == text:
                return False
    except FileNotFoundError:
        pass
    os.makedirs(os.path.dirname(path), exist_ok=True)
    tmp = path + ".tmp%d" % os.getpid()
    with open(tmp, "w") as fh:
        fh.write(text)
    os.replace(tmp, path)
    return True


def lake_build(targets, timeout=1500):
    """Returns (ok, output). Caller holds lean_lock."""
    env = dict(os.environ)
    p = subprocess.run(
        ["lake", "build", *targets],
        cwd=LEAN,
        stdout=subprocess.PIPE,
        stderr=subprocess.STDOUT,
        text=True,
        timeout=timeout,
        env=env,
    )
    return p.returncode == 0, p.stdout


def strip_lean_comments(src: str) -> str:
    # block comments (nested) and line comments
    out = []
    i = 0
    depth = 0
    n = len(src)
    while i < n:
        if src.startswith("/-", i):
            depth += 1
            i += 2
        elif depth and src.startswith("-/", i):
            depth -= 1
            i += 2
        elif depth:
            if src[i] == "\n":
                out.append("\n")
            i += 1
        elif src.startswith("--", i):
            j = src.find("\n", i)
            i = n if j < 0 else j
        else:
            out.append(src[i])
            i += 1
    return "".join(out)


def import_closure(module: str):
    """Modules of this project reachable from `module` (by `import JaxVerif.…` lines)."""
    seen = []
    todo = [module]
    while todo:
        m = todo.pop()
        if m in seen:
            continue
        path = os.path.join(LEAN, *m.split(".")) + ".lean"
        if not os.path.exists(path):
            continue
        seen.append(m)
        with open(path) as fh:
            for line in fh:
                mm = re.match(r"\s*import\s+((?:JaxVerif|Driver)\.[\w.]+)", line)
                if mm:
                    todo.append(mm.group(1))
    return seen


def grep_forbidden(module: str):
    hits = []
    for m in import_closure(module):
        path = os.path.join(LEAN, *m.split(".")) + ".lean"
        src = strip_lean_comments(open(path).read())
        for ln, line in enumerate(src.splitlines(), 1):
            if FORBIDDEN_RE.search(line):
                hits.append(f"{m}:{ln}: {line.strip()}")
    return hits


def external_imports(module: str):
    ext = set()
    for m in import_closure(module):
        path = os.path.join(LEAN, *m.split(".")) + ".lean"
        for line in open(path):
            mm = re.match(r"\s*import\s+([\w.]+)", line)
            if mm and not mm.group(1).startswith(("JaxVerif", "Driver")):
                ext.add(mm.group(1))
    return sorted(ext)


def run_audit(pid: str, timeout=600):
    """Elaborate Audit/<pid>.lean and parse `#print axioms` output.
    Returns dict theorem -> list of axioms, plus raw output and ok flag."""
    p = subprocess.run(
        ["lake", "env", "lean", f"JaxVerif/Audit/{pid}.lean"],
        cwd=LEAN,
        stdout=subprocess.PIPE,
        stderr=subprocess.STDOUT,
        text=True,
        timeout=timeout,
    )
    out = p.stdout
    res = {}
    for m in re.finditer(
        r"'([^']+)' depends on axioms: \[([^\]]*)\]|'([^']+)' does not depend on any axioms", out
    ):
        if m.group(1):
            res[m.group(1)] = [a.strip() for a in m.group(2).replace("\n", " ").split(",") if a.strip()]
        else:
            res[m.group(3)] = []
    return p.returncode == 0, res, out


def failing_decls(build_output: str):
    """Best-effort mapping of Lean errors to declaration names / file positions."""
    errs = []
    for m in re.finditer(r"error: ([\w/.]+\.lean):(\d+):(\d+): (.*)", build_output):
        errs.append({"file": m.group(1), "line": int(m.group(2)), "msg": m.group(4)[:300]})
    # look up the enclosing theorem
    for e in errs:
        path = os.path.join(LEAN, e["file"])
        try:
            lines = open(path).read().splitlines()
        except OSError:
            continue
        for ln in range(min(e["line"], len(lines)) - 1, -1, -1):
            mm = re.match(r"\s*(?:theorem|lemma|def|example|instance)\s+([\w.']+)?", lines[ln])
            if mm:
                e["decl"] = mm.group(1) or "example"
                break
    return errs


class ProofStatus:
    def __init__(self):
        self.ok = True
        self.obligations = 0
        self.discharged = 0
        self.broken = []  # human-readable names of obligations that do not check
        self.axioms = {}
        self.notes = []
        self.build_s = 0.0
        self.ext_imports = []


def check_proofs(pid: str, theorems, tier: str, extra_targets=()) -> ProofStatus:
    """Build Properties/<pid>, audit axioms, grep forbidden constructs.
    `theorems` = names that must appear in the audit with permitted axioms."""
    st = ProofStatus()
    t0 = time.time()
    mod = f"JaxVerif.Properties.{pid}"
    with lean_lock():
        ok, out = lake_build([mod, "driver", *extra_targets])
        if not ok:
            st.ok = False
            errs = failing_decls(out)
            if not errs and "error" not in out:
                raise InfraError("lake build failed without a Lean error:\n" + out[-2000:])
            for e in errs:
                st.broken.append(f"{e.get('decl', '?')} ({e['file']}:{e['line']}: {e['msg']})")
            if not errs:
                st.broken.append("lake build failed: " + out[-500:])
            st.notes.append(out[-3000:])
            st.obligations = len(theorems)
            st.discharged = 0
            st.build_s = time.time() - t0
            return st
        aok, axioms, aout = run_audit(pid)
    st.axioms = axioms
    st.obligations = len(theorems)
    for th in theorems:
        full = th if th.startswith("JV.") else "JV." + th
        if full not in axioms:
            st.ok = False
            st.broken.append(f"{full} (missing from axiom audit)")
            continue
        bad = [a for a in axioms[full] if a not in ALLOWED_AXIOMS]
        if bad:
            st.ok = False
            st.broken.append(f"{full} (depends on non-permitted axioms {bad})")
            continue
        st.discharged += 1
    hits = grep_forbidden(mod)
    if hits:
        st.ok = False
        st.broken.append("forbidden construct in proof sources: " + "; ".join(hits[:5]))
    st.ext_imports = external_imports(mod)
    if tier == "thorough":
        with lean_lock():
            p = subprocess.run(
                ["lake", "env", "leanchecker", mod],
                cwd=LEAN,
                stdout=subprocess.PIPE,
                stderr=subprocess.STDOUT,
                text=True,
                timeout=3000,
            )
        if p.returncode != 0:
            st.ok = False
            st.broken.append("leanchecker rejected " + mod + ": " + p.stdout[-400:])
        else:
            st.notes.append("leanchecker accepted " + mod)
    st.build_s = time.time() - t0
    return st


class Driver:
    """Long-lived model driver (compiled `lean_exe`; falls back to `lean --run`)."""

    def __init__(self):
        exe = os.path.join(LEAN, ".lake", "build", "bin", "driver")
        if os.path.exists(exe):
            cmd = [exe]
        else:
            cmd = ["lake", "env", "lean", "--run", "Driver/Main.lean"]
        self.p = subprocess.Popen(
            cmd, cwd=LEAN, stdin=subprocess.PIPE, stdout=subprocess.PIPE, text=True, bufsize=1
        )
        self.n = 0

    def ask(self, req: dict):
        line = json.dumps(req, separators=(",", ":"))
        try:
            self.p.stdin.write(line + "\n")
            self.p.stdin.flush()
            ans = self.p.stdout.readline()
        except (BrokenPipeError, OSError) as e:
            raise InfraError(f"driver died: {e}")
        if not ans:
            raise InfraError("driver closed its output (crash?) on request " + line[:300])
        self.n += 1
        r = json.loads(ans)
        if isinstance(r, dict) and "error" in r:
            raise InfraError(f"driver error {r['error']} on {line[:300]}")
        return r

    def close(self):
        try:
            self.p.stdin.close()
            self.p.wait(timeout=10)
        except Exception:
            self.p.kill()


# --------------------------------------------------------------------------- findings / evidence


def load_known_findings():
    path = os.path.join(VERIF, "known_findings.json")
    try:
        return json.load(open(path))
    except FileNotFoundError:
        return {"known": [], "fixed": []}


class Outcome:
    """Collects what one run found and turns it into exit status, stdout lines, evidence."""

    def __init__(self, pid: str, tier: str, seed: int, level: str = "proof"):
        self.pid = pid
        self.tier = tier
        self.seed = seed
        self.level = level
        self.t0 = time.time()
        self.violations = []  # dicts with 'key', 'what', 'replay'
        self.known_hits = []
        self.model_diffs = []  # correspondence differences (model vs implementation)
        self.coverage = {}
        self.assumptions = []
        self.samples = []
        self.evaluations = 0
        self.nontrivial = set()
        self.hist = {}
        self.proof = None
        self.kf = load_known_findings()

    # --- counting
    def count(self, key: str, n: int = 1):
        self.hist[key] = self.hist.get(key, 0) + n

    def case(self, sig, nontrivial: bool = True, sample=None):
        self.evaluations += 1
        if nontrivial:
            self.nontrivial.add(sig if isinstance(sig, (str, int, tuple)) else json.dumps(sig, sort_keys=True))
        if sample is not None and len(self.samples) < 8:
            n = self.evaluations
            # spread the written-out samples over the run: 1st, 7th, 50th, 350th, ...
            if n in (1, 7, 50, 350, 2500, 17000, 120000, 800000):
                self.samples.append(sample)

    # --- findings
    def _match_known(self, key: str):
        for k in self.kf.get("known", []):
            if k.get("property") == self.pid and re.fullmatch(k["match"], key):
                return k
        return None

    def violation(self, key: str, what: str, replay: dict):
        """A concrete input on which the implementation violates the property."""
        k = self._match_known(key)
        if k is not None:
            if not any(h[0] is k for h in self.known_hits):
                self.known_hits.append((k, key, what))
            return
        if any(v["key"] == key for v in self.violations):
            return
        self.violations.append({"key": key, "what": what, "replay": replay})

    def model_diff(self, key: str, what: str, replay: dict):
        """Model and implementation disagree on an input where no property verdict is implied."""
        if len(self.model_diffs) < 20:
            self.model_diffs.append({"key": key, "what": what, "replay": replay})

    # --- finish
    def finish(self, rule: str, trusted_base, checker_cmd: str, extra_cov=None) -> int:
        os.makedirs(EVID, exist_ok=True)
        os.makedirs(REPLAYS, exist_ok=True)
        lines = []
        nviol = 0
        for k, key, what in self.known_hits:
            lines.append(f"KNOWN-FINDING: property={self.pid} {k.get('id', '')} {what}")
        for i, v in enumerate(self.violations[:5]):
            path = os.path.join(REPLAYS, f"{self.pid}_{self.tier}_{i}.json")
            json.dump(
                {"property": self.pid, "kind": "failing-input", "key": v["key"], "what": v["what"], **v["replay"]},
                open(path, "w"), indent=1, default=str,
            )
            lines.append(f"VIOLATION property={self.pid} replay={path}")
            nviol += 1
        proof_broken = self.proof is not None and not self.proof.ok
        if nviol == 0 and (proof_broken or self.model_diffs):
            path = os.path.join(REPLAYS, f"{self.pid}_{self.tier}_unproved.json")
            json.dump(
                {
                    "property": self.pid,
                    "kind": "proof-or-correspondence-broken",
                    "theorems_not_checking": self.proof.broken if self.proof else [],
                    "correspondence_differences": self.model_diffs[:10],
                    "note": "the failing-input search found no input on which the implementation "
                    "violates the property; the property is no longer shown to hold",
                },
                open(path, "w"), indent=1, default=str,
            )
            lines.append(f"VIOLATION property={self.pid} replay={path} no-failing-input-found")
            nviol += 1
        cov = {
            "evaluations": self.evaluations,
            "distinct_nontrivial": len(self.nontrivial),
            "rule": rule,
            "samples": self.samples[:8] or ["(no case generated)"],
            "obligations": self.proof.obligations if self.proof else 0,
            "discharged": self.proof.discharged if self.proof else 0,
            "checker_cmd": checker_cmd,
            "trusted_base": list(trusted_base),
            "axioms_per_theorem": self.proof.axioms if self.proof else {},
            "mathlib_modules_imported": self.proof.ext_imports if self.proof else [],
            "theorems_not_checking": self.proof.broken if self.proof else [],
            "correspondence_differences": len(self.model_diffs),
            "known_findings_hit": [k.get("id") for k, _, _ in self.known_hits],
            "input_distribution": dict(sorted(self.hist.items())),
            "lean_build_s": round(self.proof.build_s, 1) if self.proof else 0,
        }
        if extra_cov:
            cov.update(extra_cov)
        ev = {
            "property_id": self.pid,
            "tier": self.tier,
            "seed": self.seed,
            "level": self.level,
            "coverage": cov,
            "assumptions": self.assumptions,
            "wall_s": round(time.time() - self.t0, 2),
            "violations": nviol,
        }
        tmp = os.path.join(EVID, f".{self.pid}.json.tmp{os.getpid()}")
        json.dump(ev, open(tmp, "w"), indent=1, default=str)
        os.replace(tmp, os.path.join(EVID, f"{self.pid}.json"))
        for ln in lines:
            print(ln)
        print(
            f"[{self.pid} {self.tier} seed={self.seed}] evaluations={self.evaluations} "
            f"nontrivial={len(self.nontrivial)} obligations={cov['obligations']} discharged={cov['discharged']} "
            f"violations={nviol} known={len(self.known_hits)} wall={ev['wall_s']}s"
        )
        return 1 if nviol else 0


@contextlib.contextmanager
def scratch_dir(prefix="jaxverif_"):
    d = tempfile.mkdtemp(prefix=prefix)
    try:
        yield d
    finally:
        shutil.rmtree(d, ignore_errors=True)


class _ThreadStdout:
    """sys.stdout proxy: text written by a thread that is capturing goes to that thread's buffer,
    everything else to the real stdout (so capturing is safe when several threads print)"""

    def __init__(self, real):
        self._real = real
        self._tl = threading.local()

    def _stack(self):
        st = getattr(self._tl, "stack", None)
        if st is None:
            st = self._tl.stack = []
        return st

    def write(self, text):
        st = self._stack()
        if st:
            return st[-1].write(text)
        return self._real.write(text)

    def flush(self):
        if not self._stack():
            self._real.flush()

    def __getattr__(self, name):
        return getattr(self._real, name)


@contextlib.contextmanager
def capture_stdout():
    if not isinstance(sys.stdout, _ThreadStdout):
        sys.stdout = _ThreadStdout(sys.stdout)
    proxy = sys.stdout
    buf = io.StringIO()
    proxy._stack().append(buf)
    try:
        yield buf
    finally:
        proxy._stack().pop()
