"""(T1, translation) `_JaxtypingLoader.source_to_code`, `get_code` and (if the class overrides it) `exec_module`
(jaxtyping/_import_hook.py) are translated statement by statement into the language of lean/JaxVerif/Model/LoaderDsl.lean
(`Generated/LoaderCode.lean`); Properties/C18.lean proves on every run that what they return has been through the
transformer, was compiled in isolation, is looked up under the hook's tag whether or not the run writes bytecode, and that
the interpreter's own `cache_from_source` is back in force while the module body runs. Anything not recognised becomes
`.unknown` (a crash in the interpreter)."""
from __future__ import annotations

import ast
import os

from common import GEN, REPO, write_if_changed


def _u(n):
    try:
        return ast.unparse(n)
    except Exception:  # noqa: BLE001
        return "?"


def _strip(stmts):
    return [s for s in stmts if not (isinstance(s, ast.Expr) and isinstance(s.value, ast.Constant)) and not isinstance(s, ast.Pass)]


def _compile_call(c, dicts=None):
    """(first argument, keywords, flags) of `compile(x, ...)` / `_call_with_frames_removed(compile, x, ...)`, else None;
    `**opts` of a local dict display `opts = {"dont_inherit": True, ...}` is written out"""
    if not isinstance(c, ast.Call):
        return None
    args = None
    if _u(c.func) == "compile":
        args = list(c.args)
    elif _u(c.func) in ("_call_with_frames_removed", "importlib._bootstrap._call_with_frames_removed") and c.args and _u(c.args[0]) == "compile":
        args = list(c.args[1:])
    if not args or any(isinstance(a, ast.Starred) for a in args):
        return None
    kw = {}
    for k in c.keywords:
        if k.arg is None:
            if isinstance(k.value, ast.Name) and dicts and k.value.id in dicts:
                kw.update(dicts[k.value.id])
            else:
                return None
        else:
            kw[k.arg] = k.value
    if len(args) < 3 and "mode" not in kw:
        return None
    mode = args[2] if len(args) >= 3 else kw["mode"]
    if not (isinstance(mode, ast.Constant) and mode.value == "exec"):
        return None
    flags = args[3] if len(args) >= 4 else kw.get("flags")
    if len(args) > 4:
        return None
    return args[0], kw, flags


class LoaderTranslator:
    def __init__(self, cls, own_future):
        self.cls = cls
        self.own_future = own_future   # the hook's own file has `from __future__ import ...`
        self.source = None
        self.tree = None          # the name the tree was last bound to ...
        self.trees = set()        # ... and every name of the same object (`visit` hands back the node it was given)
        self.dicts = {}
        self.partials = set()
        self.hash_locals = set()     # locals bound to `self._typechecker.get_hash()`
        self.consts = {}             # module-level string constants
        self.code = None
        self.got = None
        self.transformers = set()
        self.notes = []

    def cond(self, t):
        if isinstance(t, ast.UnaryOp) and isinstance(t.op, ast.Not):
            c = self.cond(t.operand)
            return ".unknown" if c == ".unknown" else f"(.not {c})"
        if _u(t) == "sys.dont_write_bytecode":
            return "(.not .writes)"
        self.notes.append("condition: " + _u(t)[:100])
        return ".unknown"

    def seq(self, stmts):
        out = [x for x in (self.stmt(s) for s in _strip(stmts)) if x != ".skip"] or [".skip"]
        r = out[-1]
        for x in reversed(out[:-1]):
            r = f"(.seq {x} {r})"
        return r

    def _iso(self, kw):
        v = kw.get("dont_inherit")
        return isinstance(v, ast.Constant) and v.value is True

    def _is_transformer(self, e):
        if isinstance(e, ast.Name) and e.id in self.transformers:
            return True
        if isinstance(e, ast.Call) and _u(e.func) == "JaxtypingTransformer":
            if len(e.args) == 1 and not e.keywords and _u(e.args[0]) == "self._typechecker":
                return True
            if not e.args and len(e.keywords) == 1 and e.keywords[0].arg == "typechecker" and _u(e.keywords[0].value) == "self._typechecker":
                return True
        return False

    PARTIAL = ("ft.partial(_optimized_cache_from_source, self._typechecker.get_hash())",
               "functools.partial(_optimized_cache_from_source, self._typechecker.get_hash())")

    def _is_partial(self, x):
        """`ft.partial(_optimized_cache_from_source, <the typechecker hash>)`, the hash written out or held by a local"""
        return isinstance(x, ast.Call) and _u(x.func) in ("ft.partial", "functools.partial") and len(x.args) == 2 and not x.keywords \
            and _u(x.args[0]) == "_optimized_cache_from_source" and (_u(x.args[1]) == "self._typechecker.get_hash()" or (isinstance(x.args[1], ast.Name) and x.args[1].id in self.hash_locals))

    def _patch_call(self, e):
        """`patch("importlib._bootstrap_external.cache_from_source", ft.partial(_optimized_cache_from_source, self._typechecker.get_hash()))`,
        written out or returned by a method of the loader that does nothing else"""
        import extract

        if isinstance(e, ast.Call) and isinstance(e.func, ast.Attribute) and isinstance(e.func.value, ast.Name) and e.func.value.id == "self" \
                and not e.args and not e.keywords:
            m = extract.find_def(self.cls, e.func.attr)
            body = _strip(m.body) if m is not None else []
            if len(body) == 1 and isinstance(body[0], ast.Return) and body[0].value is not None and [a.arg for a in m.args.args] == ["self"] and not m.decorator_list:
                e = body[0].value
                partial_ok = lambda x: _u(x) in self.PARTIAL      # noqa: E731  (no locals in a one-line method)
            else:
                return None
        else:
            partial_ok = lambda x: _u(x) in self.PARTIAL or self._is_partial(x) or (isinstance(x, ast.Name) and x.id in self.partials)      # noqa: E731
        target = e.args[0] if isinstance(e, ast.Call) and e.args else None
        target_text = target.value if isinstance(target, ast.Constant) else self.consts.get(target.id) if isinstance(target, ast.Name) else None
        if extract.call_name(e) == "patch" and _u(e.func) in ("patch", "mock.patch", "unittest.mock.patch") and len(e.args) == 2 and not e.keywords \
                and target_text == "importlib._bootstrap_external.cache_from_source" and partial_ok(e.args[1]):
            return e
        return None

    def _value(self, v, target):
        """an expression whose value goes to `target` (a local name, or "<return>")"""
        # decode_source(data)
        if _u(v) == "decode_source(data)" and target != "<return>":
            self.source = target
            return ".decode"
        cc = _compile_call(v, self.dicts)
        if cc is not None:
            first, kw, flags = cc
            if self.source and _u(first) == self.source and flags is not None and _u(flags) == "ast.PyCF_ONLY_AST" and target not in ("<return>", None):
                self.tree = target
                self.trees = {target}
                return f"(.parse {'true' if self._iso(kw) else 'false'})"
            if self.tree and _u(first) in self.trees and flags is None:
                iso = "true" if self._iso(kw) else "false"
                if target == "<return>":
                    return f"(.seq (.compileTree {iso}) .retCode)"
                self.code = target
                return f"(.compileTree {iso})"
        # ast.parse(source, ...): compiled from inside ast.py, which has no __future__ flags of its own
        if isinstance(v, ast.Call) and _u(v.func) == "ast.parse" and v.args and self.source and _u(v.args[0]) == self.source and target != "<return>" \
                and all(k.arg in ("filename", "mode") for k in v.keywords) and len(v.args) <= 2 \
                and all(not (k.arg == "mode") or (isinstance(k.value, ast.Constant) and k.value.value == "exec") for k in v.keywords):
            self.tree = target
            self.trees = {target}
            return "(.parse true)"
        # <transformer>.visit(tree)
        if isinstance(v, ast.Call) and isinstance(v.func, ast.Attribute) and v.func.attr == "visit" and len(v.args) == 1 and not v.keywords \
                and self.tree and _u(v.args[0]) in self.trees and self._is_transformer(v.func.value) and target != "<return>":
            if target is not None:
                self.tree = target
                self.trees.add(target)
            return ".transform"
        if self.tree and isinstance(v, ast.Call) and _u(v.func) == "ast.fix_missing_locations" and len(v.args) == 1 and not v.keywords \
                and _u(v.args[0]) in self.trees and target != "<return>":
            if target is not None:
                self.tree = target
                self.trees.add(target)
            return ".fixLocations"
        if isinstance(v, ast.Call) and _u(v.func) == "super().get_code" and len(v.args) == 1 and not v.keywords and _u(v.args[0]) == "fullname":
            if target == "<return>":
                return "(.seq .superGetCode .retGot)"
            if target is not None:
                self.got = target
                return ".superGetCode"
        if isinstance(v, ast.Call) and _u(v.func) == "super().source_to_code" and target == "<return>" and v.args and _u(v.args[0]) == "data":
            return ".retSuperSourceToCode"
        if isinstance(v, ast.Call) and _u(v.func) == "super().exec_module" and target is None and len(v.args) == 1 and _u(v.args[0]) == "module" and not v.keywords:
            return ".superExecModule"
        return None

    def stmt(self, st):
        if isinstance(st, ast.If):
            saved = (self.source, self.tree, self.code, self.got)
            a = self.seq(st.body)
            after_a = (self.source, self.tree, self.code, self.got)
            self.source, self.tree, self.code, self.got = saved
            b = self.seq(st.orelse)
            if (self.source, self.tree, self.code, self.got) != after_a and not (a.endswith(".retCode)") or a.endswith(".retGot)") or a in (".retCode", ".retGot", ".retSuperSourceToCode")):
                self.notes.append("branches bind different locals: " + _u(st.test)[:80])
                return ".unknown"
            return f"(.ite {self.cond(st.test)} {a} {b})"
        if isinstance(st, ast.With) and len(st.items) == 1 and st.items[0].optional_vars is None:
            e = self._patch_call(st.items[0].context_expr)
            if e is not None:
                return f"(.withPatch {self.seq(st.body)})"
        if isinstance(st, ast.Assign) and len(st.targets) == 1 and isinstance(st.targets[0], ast.Name):
            t = st.targets[0].id
            if self._is_transformer(st.value) and isinstance(st.value, ast.Call):
                self.transformers.add(t)
                return ".skip"
            if isinstance(st.value, ast.Dict) and all(isinstance(k, ast.Constant) and isinstance(k.value, str) for k in st.value.keys):
                self.dicts[t] = {k.value: v for k, v in zip(st.value.keys, st.value.values)}
                return ".skip"
            if _u(st.value) in self.PARTIAL or self._is_partial(st.value):
                self.partials.add(t)
                return ".skip"
            if _u(st.value) == "self._typechecker.get_hash()":
                self.hash_locals.add(t)
                return ".skip"
            r = self._value(st.value, t)
            if r is not None:
                return r
        if isinstance(st, ast.Expr):
            r = self._value(st.value, None)
            if r is not None:
                return r
        if isinstance(st, ast.Return) and st.value is not None:
            if isinstance(st.value, ast.Name):
                if self.code and st.value.id == self.code:
                    return ".retCode"
                if self.got and st.value.id == self.got:
                    return ".retGot"
            r = self._value(st.value, "<return>")
            if r is not None:
                return r
        self.notes.append("statement: " + _u(st)[:100].replace("\n", " "))
        return ".unknown"


def run():
    from inline import inline_helpers

    with open(os.path.join(REPO, "jaxtyping", "_import_hook.py")) as fh:
        tree = ast.parse(fh.read())
    notes = []
    codes = {"source_to_code": ".unknown", "get_code": ".unknown", "exec_module": ".unknown"}
    cls = next((n for n in tree.body if isinstance(n, ast.ClassDef) and n.name == "_JaxtypingLoader"), None)
    own_future = any(isinstance(n, ast.ImportFrom) and n.module == "__future__" for n in tree.body)
    ok_cls = cls is not None and [_u(b) for b in cls.bases] == ["SourceFileLoader"] and not cls.keywords and not cls.decorator_list
    # the names the translation gives a meaning to are the library functions of that name, bound once, at import
    expected = {"patch": ("unittest.mock",), "decode_source": ("importlib.util",), "SourceFileLoader": ("importlib.machinery", "importlib._bootstrap_external"),
                "_call_with_frames_removed": ("importlib._bootstrap",)}
    bound = {}
    for n in ast.walk(tree):
        if isinstance(n, ast.ImportFrom):
            for a in n.names:
                bound.setdefault(a.asname or a.name, []).append(n.module)
        elif isinstance(n, (ast.FunctionDef, ast.ClassDef)) and n in tree.body:
            bound.setdefault(n.name, []).append("<defined here>")
        elif isinstance(n, ast.Assign) and n in tree.body:
            for t_ in n.targets:
                if isinstance(t_, ast.Name):
                    bound.setdefault(t_.id, []).append("<assigned here>")
    wrong = [k for k, mods in expected.items() if k in bound and not (len(bound[k]) == 1 and bound[k][0] in mods)]
    # `_call_with_frames_removed` may also be the usual one-liner, defined here: `def _(f, *args, **kwargs): return f(*args, **kwargs)`
    cw = [n for n in tree.body if isinstance(n, ast.FunctionDef) and n.name == "_call_with_frames_removed"]
    if bound.get("_call_with_frames_removed") == ["<defined here>"] and len(cw) == 1 and not cw[0].decorator_list \
            and _u(cw[0].args) == "f, *args, **kwargs" and [_u(x) for x in _strip(cw[0].body)] == ["return f(*args, **kwargs)"]:
        wrong.remove("_call_with_frames_removed")
    if wrong:
        notes.append("rebound library names: " + ", ".join(wrong))
        ok_cls = False
    if not ok_cls:
        notes.append("_JaxtypingLoader not found / unexpected bases or decorators")
    else:
        methods = {m.name: m for m in cls.body if isinstance(m, (ast.FunctionDef, ast.AsyncFunctionDef))}
        # what `SourceLoader` / `SourceFileLoader` would otherwise do, for the methods the class leaves alone
        defaults = {"source_to_code": ".retSuperSourceToCode", "get_code": "(.seq .superGetCode .retGot)", "exec_module": ".superExecModule"}
        want = {"source_to_code": ["self", "data", "path"], "get_code": ["self", "fullname"], "exec_module": ["self", "module"]}
        for name in codes:
            m = methods.get(name)
            if m is None:
                codes[name] = defaults[name]
                continue
            if not isinstance(m, ast.FunctionDef) or m.decorator_list or [a.arg for a in m.args.args] != want[name] or m.args.vararg or m.args.kwarg:
                notes.append(f"{name}: unexpected parameters / decorators")
                continue
            t = LoaderTranslator(cls, own_future)
            import extract

            t.consts = {k: v.value for k, v in extract.module_constants(tree).items() if isinstance(v.value, str)}
            codes[name] = t.seq(inline_helpers(m, tree, cls).body)
            notes += [f"{name}: {n}" for n in t.notes]
        # other overridden loader methods that decide what is executed or where the bytecode lives
        for other in ("get_data", "set_data", "_cache_bytecode", "path_stats", "path_mtime"):
            if other in methods:
                notes.append(f"the class overrides {other}")
                codes["get_code"] = ".unknown"
    note = ("(" + "; ".join(notes)[:400].replace("-/", "- /") + ")") if notes else ""
    txt = f"""/- GENERATED by harness/translate_loader.py from {REPO}/jaxtyping/_import_hook.py on every run. Do not edit. -/
import JaxVerif.Model.LoaderDsl

namespace JV.Generated

/-- `_JaxtypingLoader.source_to_code(self, data, path, *, _optimize=-1)` {note} -/
def sourceToCodeCode : LStmt :=
  {codes['source_to_code']}
/-- `_JaxtypingLoader.get_code(self, fullname)` -/
def getCodeCode : LStmt :=
  {codes['get_code']}
/-- `exec_module(self, module)` (`SourceLoader`'s when the class does not override it) -/
def execModuleCode : LStmt :=
  {codes['exec_module']}

end JV.Generated
"""
    write_if_changed(os.path.join(GEN, "LoaderCode.lean"), txt)
    return {"loader_notes": notes, "codes": codes}


if __name__ == "__main__":
    import json

    print(json.dumps(run(), indent=1))
