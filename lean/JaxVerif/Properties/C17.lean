/-
C17 — verdicts depend on type, shape and dtype only, so tracing equals eager.
A tracer and a concrete array are, for jaxtyping, two objects that answer `isinstance`, `.dtype`
and `.shape` alike and differ in everything else (`payload`). The theorems state that the model's
verdict AND bindings are a function of those three answers; `C17_attrs` ties this to the source:
the functions on the check path read nothing else of the checked object.
-/
import JaxVerif.Spec.Calls
import JaxVerif.Lemmas.Payload
import JaxVerif.Generated.ObjAttrs

namespace JV

/-- two objects that answer the type test, `.dtype` and `.shape` alike -/
def SameMeta (o₁ o₂ : ArrObj) : Prop :=
  o₁.isInst = o₂.isInst ∧ o₁.dtype = o₂.dtype ∧ o₁.shape = o₂.shape

/-- **one check**: verdict and bindings are the same for any two such objects, whatever their
    element values, in every context and every mode -/
theorem C17_payload (c : Catch) (fl : Bool) (tp : TreePath) (a : Ann) (o₁ o₂ : ArrObj) (m : Memo)
    (h : SameMeta o₁ o₂) :
    instancecheck c fl tp a o₁ m = instancecheck c fl tp a o₂ m := by
  obtain ⟨h1, h2, h3⟩ := h
  unfold instancecheck
  rw [h1, h2, h3]

/-- **a whole call**: the typechecker's pass over all annotated values of a call (the walk C02
    shows to be satisfiability) gives the same verdict and the same bindings -/
theorem C17_call (c : Catch) (tp : TreePath) (l₁ l₂ : List (Ann × ArrObj)) (m : Memo)
    (h : All2 (fun p q => p.1 = q.1 ∧ SameMeta p.2 q.2) l₁ l₂) :
    checkSeq c tp l₁ m = checkSeq c tp l₂ m := by
  induction h generalizing m with
  | nil => rfl
  | @cons p q l₁ l₂ hpq _ ih =>
    obtain ⟨a, o₁⟩ := p
    obtain ⟨b, o₂⟩ := q
    obtain ⟨hab, hm⟩ := hpq
    simp only at hab
    subst hab
    simp only [checkSeq, C17_payload c false tp a o₁ o₂ m hm]
    cases instancecheck c false tp a o₂ m with
    | mk v m' =>
      cases v <;> simp only [ih]

/-- in particular replacing every payload (what tracing does) changes nothing -/
theorem C17_trace (c : Catch) (tp : TreePath) (l : List (Ann × ArrObj)) (f : ArrObj → Nat) (m : Memo) :
    checkSeq c tp (l.map fun p => (p.1, { p.2 with payload := f p.2 })) m = checkSeq c tp l m := by
  apply C17_call
  induction l with
  | nil => exact .nil
  | cons p ps ih => exact .cons ⟨rfl, rfl, rfl, rfl⟩ ih

/-- **every annotation in scope, PyTrees included**: two values that are the same tree with arrays of
    the same class, dtype and shape at the same places (`Obj.Sim`: element values and everything else
    about the arrays may differ) get the same verdict and leave the same state, for every leaf type
    (arrays, classes, tuples, unions, `PyTree[...]` with or without structure names and `?` axes) -/
theorem C17_pytree (sk : Skel) (l : LType) (x y : Obj) (st : CState) (h : Obj.Sim x y) :
    checkL sk l x st = checkL sk l y st :=
  checkL_sim sk l x y st h

/-- hence the typechecker's pass over the parameters of a call with arbitrary such annotations -/
theorem C17_params (sk : Skel) (ps qs : List Param) (st : TState)
    (h : All2 (fun p q => p.name = q.name ∧ p.ty = q.ty ∧ Obj.Sim p.val q.val) ps qs) :
    checkParams sk ps st = checkParams sk qs st := by
  induction h generalizing st with
  | nil => rfl
  | @cons p q ps qs hpq _ ih =>
    obtain ⟨hn, ht, hv⟩ := hpq
    have hf : checkL sk p.ty p.val = checkL sk q.ty q.val := by
      funext c
      rw [ht]
      exact checkL_sim sk q.ty p.val q.val c hv
    simp only [checkParams, hf, hn]
    cases onTop st (checkL sk q.ty q.val) with
    | mk st1 v => cases v <;> simp only [ih]

/-- the source read today: the check path reads `shape` and `dtype` of the checked object and
    nothing else, and hands the bare object only to `isinstance`, `hasattr` and its own two
    helpers — never compares it, tests its truth, indexes or iterates it; `_check_dims` is given
    sizes, not the object -/
theorem C17_attrs :
    (∀ a ∈ Generated.objAttrsRead, a ∈ ["shape", "dtype"]) ∧
    (∀ u ∈ Generated.objBareUses, u ∈ ["isinstance", "hasattr", "_check_shape", "__instancecheck_str__"]) ∧
    Generated.objAttrsRead ≠ [] ∧ "obj" ∉ Generated.checkDimsParams := by decide

/-! non-vacuity -/
example : SameMeta { isInst := true, dtype := "float32", shape := [2, 3], payload := 0 }
    { isInst := true, dtype := "float32", shape := [2, 3], payload := 77 } := ⟨rfl, rfl, rfl⟩

end JV
