"""C14 — the dim-string language: modifier order is free, illegal forms are ValueError, building
an annotation never fails in any other way."""
import itertools
import json

import gen_dims
import impl
import jaxtyping
from common import Rng
from impl import Duck
from jaxtyping import Float, jaxtyped

LEVEL = "proof"
THEOREMS = [
    "C14_order",
    "C14_ellipsis",
    "C14_whitespace",
    "C14_whitespace_parse",
    "C14_doc",
    "C14_illegal_comma",
    "C14_illegal_trailing_hash",
    "C14_illegal_ellipsis_modifiers",
    "C14_illegal_repeated",
    "C14_illegal_modifier",
    "C14_illegal_two_variadics",
    "C14_concat",
    "C14_source_loop_body",
    "C14_source_parser",
    "C14_source_spec",
    "C14_source_header",
]
RULE = (
    "exhaustive: every axis token made of <=4 modifier characters from {#,*,_,?} in any order "
    "(repetitions included) x {no prefix, 'd=' prefix at every position among the modifiers} x bases "
    "{a, 4, a+b, '', '...'}; every sequence of <=2 tokens from a reduced token set; seeded sequences of "
    "<=4 tokens with random ASCII whitespace; non-string specifications; observed: exception class when "
    "the annotation is built and the acceptance vector over 14 probe shapes under fixed prior bindings; "
    "non-trivial = the token has at least one modifier or prefix; distinct by spec text"
)
TRUSTED = [
    "Lean 4 kernel",
    "the ASCII restriction of the parser model (non-ASCII strings: totality, and names in other scripts against their ASCII counterparts)",
    "Python's str.split / str.isidentifier / int() on ASCII input as modelled",
]

PROBES = [[], [1], [2], [3], [4], [2, 3], [1, 1], [2, 1], [3, 2], [2, 2], [2, 3, 4], [1, 2, 3], [3, 3, 3], [2, 5, 3, 7]]
PRIOR = [("a b *v", [2, 3, 3])]
WS = [" ", "  ", "\t", "\n", " \t ", "\x0b", "\x0c", "\r", "\x1c", "\x1f"]


def build(spec):
    """('ok', ann) | ('VAL', None) | ('OTHER:<cls>', None)"""
    try:
        return "ok", Float[Duck, spec]
    except ValueError:
        return "VAL", None
    except BaseException as e:  # noqa: BLE001
        return "OTHER:" + type(e).__name__, None


def vector(ann):
    out = []
    for shape in PROBES:
        with jaxtyped("context"):
            for d, s in PRIOR:
                isinstance(Duck(tuple(s), "float32"), Float[Duck, d])
            out.append(impl.check_once(Duck(tuple(shape), "float32"), ann))
    return "".join(v[0] if v in ("T", "F") else "A" if v == "ANN" else "E" for v in out)


def observe(spec):
    k, ann = build(spec)
    return (k, vector(ann)) if k == "ok" else (k, None)


def model_observe(drv, specs):
    """model's (VAL|ok|UNMODELLED, vector) for each spec"""
    res = []
    reqs = []
    for spec in specs:
        for shape in PROBES:
            ops = [{"dims": d, "shape": s} for d, s in PRIOR] + [{"dims": spec, "shape": shape}]
            reqs.append({"cmd": "hist", "ops": ops})
    ans = []
    for i in range(0, len(reqs), 1400):
        ans.extend(drv.ask({"cmd": "batch", "reqs": reqs[i:i + 1400]}))
    for j, spec in enumerate(specs):
        rs = ans[j * len(PROBES):(j + 1) * len(PROBES)]
        vs = [r[-1]["v"] for r in rs]
        if vs[0] == "VAL":
            res.append(("VAL", None))
        elif "UNMODELLED" in vs:
            res.append(("UNMODELLED", None))
        else:
            res.append(("ok", "".join(v[0] if v in ("T", "F") else "A" if v == "ANN" else "E" for v in vs)))
    return res


def token_family():
    """groups of tokens that must all parse alike: (description, [tokens])"""
    fams = []
    mods = "#*_?"
    bases = ["a", "4", "a+b", "", "..."]
    for n in range(0, 5):
        for combo in itertools.combinations_with_replacement(mods, n):
            for base in bases:
                toks = set()
                for perm in set(itertools.permutations(combo)):
                    t = "".join(perm) + base
                    toks.add(t)
                    # 'd=' prefix at every position among the modifiers
                    for k in range(len(perm) + 1):
                        toks.add("".join(perm[:k]) + "d=" + "".join(perm[k:]) + base)
                fams.append(("".join(combo) + "|" + base, sorted(toks)))
    return fams


def check_family(out, name, toks, obs):
    """order freedom / prefix freedom: all members not ending in '#' must observe alike.
    (`d=...` is excluded: '...' takes no decoration.)"""
    base = name.split("|", 1)[1]
    members = [t for t in toks if t and not t.endswith("#") and not (base == "..." and t != "...")]
    if base == "":
        # an empty base after `d=` is the §6 zone (axis named ""); keep only pure modifier tokens
        members = [t for t in members if "=" not in t]
    seen = {}
    for t in members:
        seen.setdefault(obs[t], []).append(t)
    if len(seen) > 1:
        groups = sorted(seen.items(), key=lambda kv: -len(kv[1]))
        out.violation(
            f"order:{name}",
            f"the same modifiers and base written in different orders are treated differently: "
            + "; ".join(f"{k} for {v[:4]}" for k, v in groups[:3]),
            {"family": name, "observations": {t: obs[t] for t in members}},
        )


def run(tier, seed, out, drv, facts):
    rng = Rng(seed, "C14")
    thorough = tier == "thorough"
    # --- 1. exhaustive token families
    fams = token_family()
    all_toks = sorted({t for _, ts in fams for t in ts})
    obs = {}
    for t in all_toks:
        obs[t] = observe(t)
        out.case(("tok", t), any(c in t for c in "#*_?="), sample={"spec": t, "observed": obs[t]})
        out.count("build_" + obs[t][0].split(":")[0])
        if obs[t][0].startswith("OTHER"):
            out.violation(f"totality:{obs[t][0]}", f"building Float[A, {t!r}] raised {obs[t][0][6:]}, neither success nor ValueError", {"spec": t})
    for name, toks in fams:
        check_family(out, name, toks, obs)
    # documented illegal forms
    illegal = ["##a", "**a", "__a", "??a", "*a *b", "... *a", "... ...", "a,b", "a#", "*4", "_4", "?4", "_a+b", "*a+b", "?a+b", "#_", "#...", "*...", "_...", "?...", "d=...", "a, b",
               # the comma rule is per axis: a bracket in ANOTHER axis does not excuse it
               "a,b (a)", "a, b 2*(a+1)", "#a,b *c (a)", "(a) a,b", "n=a,b (3)", "a,b min(a,b)"]
    for spec in illegal:
        o = observe(spec)
        out.case(("illegal", spec), True)
        if o[0] != "VAL":
            out.violation(f"illegal-form-accepted:{spec}", f"the documented illegal form {spec!r} is {o[0]} instead of ValueError", {"spec": spec, "observed": o})
    # '...' means '*_'; prefixes ignored; whitespace
    for a, b in [("...", "*_"), ("a ... b", "a *_ b"), ("... a", "*_ a"), ("rows=3 cols=4", "3 4"), ("x=a y=#b", "a #b"), ("n=*v", "*v")]:
        oa, ob = observe(a), observe(b)
        out.case(("equiv", a, b), True)
        if oa != ob:
            out.violation(f"equiv:{a}~{b}", f"{a!r} and {b!r} must mean the same but observe {oa} vs {ob}", {"a": a, "b": b})
    # --- 2. model correspondence on the exhaustive token set (sampled in quick) + sequences
    reduced = ["a", "#a", "*v", "*#v", "_", "...", "3", "#3", "a+1", "?a", "d=a", "#*w", "*_", "a,b", "b#", "**c", "(a)", "2*(a+1)", "#(3)"]
    seqs = [" ".join(c) for k in (0, 1, 2) for c in itertools.product(reduced, repeat=k)]
    sample = all_toks if thorough else [t for i, t in enumerate(all_toks) if i % 6 == seed % 6]
    specs = sample + seqs
    n_rand = 60000 if thorough else 300
    for _ in range(n_rand):
        k = rng.rng(0, 4)
        toks = [rng.choice(reduced + all_toks[:: max(1, len(all_toks) // 50)]) for _ in range(k)]
        spec = rng.choice(["", " ", "\t"]) + "".join(t + rng.choice(WS) for t in toks)
        specs.append(spec)
        # whitespace invariance, directly
        plain = " ".join(toks)
        if "" not in toks:
            o1, o2 = observe(spec), observe(plain)
            if o1 != o2:
                out.violation(f"whitespace:{plain}", f"{spec!r} and {plain!r} differ only in whitespace but observe {o1} vs {o2}", {"a": spec, "b": plain})
    # mostly-VALID specifications from the grammar generator of C01 (the exhaustive families above are mostly errors)
    import gen_dims

    for _ in range(20000 if thorough else 1500):
        specs.append(gen_dims.rand_dims(rng, max_axes=5, holes=("n",), treepath=rng.chance(1, 4)))
    want = model_observe(drv, specs)
    for spec, w in zip(specs, want):
        g = obs.get(spec) or observe(spec)
        if spec not in obs:
            out.case(("spec", spec), len(spec.split()) > 1, sample={"spec": spec, "observed": g})
            out.count("spec_" + g[0].split(":")[0])
        if w[0] == "UNMODELLED":
            out.count("unmodelled")
            if g[0] not in ("ok", "VAL"):
                out.violation(f"totality:{g[0]}", f"building Float[A, {spec!r}] raised {g[0]}", {"spec": spec})
            continue
        if g != w:
            rep = {"spec": spec, "observed": g, "required": w}
            zone = any(t.endswith("=") or t in ("=",) or t.lstrip("#*_?").startswith("=") for t in spec.split())
            if g[0] != w[0] and not zone:
                out.violation(f"parse:{w[0]}->{g[0]}", f"Float[A, {spec!r}] must be {w[0]} but is {g[0]}", rep)
            elif not zone:
                out.violation(f"meaning:{spec[:30]}", f"Float[A, {spec!r}] accepts {g[1]} over the probe shapes but its documented meaning accepts {w[1]}", rep)
            else:
                out.model_diff(f"zone:{spec[:30]}", f"model and implementation differ in a §6 zone: {g} vs {w}", rep)
    # --- 3. non-string specifications and the totality stream
    for spec in [3, None, ("a", "b"), b"a b", 2.5, ["a"], object(), True]:
        o = observe(spec)
        out.case(("nonstring", repr(spec)), True, sample={"spec": repr(spec), "observed": o[0]})
        if o[0] != "VAL":
            out.violation(f"non-string:{type(spec).__name__}:{o[0]}", f"Float[A, {spec!r}] must be rejected with ValueError but is {o[0]}", {"spec": repr(spec)})
    for item in [(), (Duck,), (Duck, "a", "b"), "a b", Duck]:
        try:
            Float[item]
            k = "ok"
        except ValueError:
            k = "VAL"
        except BaseException as e:  # noqa: BLE001
            k = "OTHER:" + type(e).__name__
        out.case(("item", repr(item)), True)
        if k != "VAL":
            out.violation(f"item-shape:{k}", f"Float[{item!r}] must be rejected with ValueError but is {k}", {"item": repr(item)})
    # axis names are whatever Python calls an identifier: a name that starts with a letter outside ASCII is a NAME like any
    # other (same exception or same acceptance vector as the token with an ASCII name that is bound nowhere)
    uni = ["\u03b1", "\u00e9t\u00e9", "\u65e5\u672c", "\u0394t", "\u00df", "na\u00efve"]
    forms = ["{}", "#{}", "*{}", "*#{}", "#*{}", "_{}", "?{}", "*?{}", "#?{}", "doc={}", "doc=?{}", "{} {}", "{} 2", "*{} 3", "... {}", "{}+1", "2*{}"]
    for form in forms:
        ref = observe(form.replace("{}", "zq"))
        for nm in uni:
            spec = form.replace("{}", nm)
            o = observe(spec)
            out.case(("unicode-name", spec), True, sample={"spec": spec, "observed": o, "ascii_counterpart": ref})
            if o != ref:
                out.violation(f"unicode-name:{form}", f"Float[A, {spec!r}] gives {o} but the same token with an ASCII name gives {ref}: names are identifiers, in any script", {"spec": spec, "a": spec})
    exotic = ["é", "a b", "١٢", "a²", " a", "x" * 300, "((((", "a+", "1_000", "-3", "+2", "0x10", "1e3", "a.b", "'", '"', "{", "}", "{n", "a b\x00", "\\", "a=b=c", "=", "=="]
    for _ in range(30000 if thorough else 300):
        exotic.append("".join(rng.choice(list("ab1 #*_?=.,()+-{}'\"\\\t\néʼ٣")) for _ in range(rng.rng(0, 8))))
    for spec in exotic:
        k, _ = build(spec)
        out.case(("exotic", spec), True)
        out.count("exotic_" + k.split(":")[0])
        if k.startswith("OTHER"):
            out.violation(f"totality:{k}", f"building Float[A, {spec!r}] raised {k[6:]}, neither success nor ValueError", {"spec": spec})


def replay(rep, out, drv, facts):
    spec = rep.get("spec") or rep.get("a")
    o = observe(spec)
    out.case(("replay", repr(spec)), True, sample={"spec": repr(spec), "observed": o})
    if o[0].startswith("OTHER"):
        out.violation(f"totality:{o[0]}", f"building Float[A, {spec!r}] raised {o[0][6:]}", {"spec": repr(spec)})
