import JaxVerif.Properties.C03
#print axioms JV.C03_table
#print axioms JV.C03_categories_complete
#print axioms JV.C03_precision
#print axioms JV.C03_backend
#print axioms JV.C03_hierarchy
#print axioms JV.C03_user
