"""C03 — dtype categories accept exactly the documented dtypes, on every backend.

Complete enumeration (the space is finite): every (dtype, category, array library) triple on the
real code, against the documented hierarchy (spec) and against the model; user-defined
categories (strings and regexes) on generated names.
"""
import os
import re
import typing

os.environ.setdefault("TF_CPP_MIN_LOG_LEVEL", "3")
os.environ.setdefault("CUDA_VISIBLE_DEVICES", "")

import envrows
import impl
import jaxtyping
from common import Rng

LEVEL = "proof"
THEOREMS = ["C03_table", "C03_categories_complete", "C03_precision", "C03_backend", "C03_hierarchy", "C03_user"]
RULE = (
    "complete enumeration of (dtype, category, backend): every NumPy scalar type incl. platform aliases "
    "(longlong, ulonglong, longdouble, clongdouble), every ml_dtypes type, structured dtypes, JAX arrays of "
    "every dtype jnp.zeros produces (x64 on) incl. under jit tracing, new- and old-style PRNG keys, "
    "TensorFlow tensors of 16 dtypes, duck arrays with string and torch-style dtypes x the 34 exported "
    "categories (+ make_numpy_struct_dtype classes); generated user categories over strings and regexes; "
    "non-trivial = the dtype's kind belongs to the category or the category is a precision class of the "
    "same kind; distinct by (backend:alias, category)"
)
TRUSTED = [
    "Lean 4 kernel (decide +kernel over the regenerated tables)",
    "harness/envrows.py: canonical name and kind of each dtype as reported by numpy / ml_dtypes / jax / tensorflow",
    "docs/api/array.md hierarchy transcribed by hand into Spec/Dtype.lean",
    "Python's re module (regex user categories are compared with re.match directly)",
]

KINDS = {
    "Bool": {"bool"}, "UInt": {"uint"}, "Int": {"int"}, "Integer": {"uint", "int"}, "Float": {"float"}, "Complex": {"complex"},
    "Inexact": {"float", "complex"}, "Real": {"float", "uint", "int"}, "Num": {"uint", "int", "float", "complex"}, "Key": {"key"},
}
PRECISION = {
    "UInt2": "uint2", "UInt4": "uint4", "UInt8": "uint8", "UInt16": "uint16", "UInt32": "uint32", "UInt64": "uint64",
    "Int2": "int2", "Int4": "int4", "Int8": "int8", "Int16": "int16", "Int32": "int32", "Int64": "int64",
    "Float8e4m3b11fnuz": "float8_e4m3b11fnuz", "Float8e4m3fn": "float8_e4m3fn", "Float8e4m3fnuz": "float8_e4m3fnuz",
    "Float8e5m2": "float8_e5m2", "Float8e5m2fnuz": "float8_e5m2fnuz", "BFloat16": "bfloat16", "Float16": "float16",
    "Float32": "float32", "Float64": "float64", "Complex64": "complex64", "Complex128": "complex128",
}
EXPORTED = sorted(list(KINDS) + list(PRECISION) + ["Shaped"])


def required(cat, canon, kind):
    """mirror of JV.required (Spec/Dtype.lean)"""
    if cat == "Shaped":
        return True
    if cat in KINDS:
        if kind in KINDS[cat]:
            documented = kind in ("bool", "key") or canon in PRECISION.values()
            return True if documented else None
        return False
    if cat in PRECISION:
        return canon == PRECISION[cat]
    return None


def model_verdict(facts, cat, raw):
    spec = facts["dtype_categories"].get(cat)
    if spec is None:
        return None
    if raw.get("typeName") is not None:
        if raw.get("structStr") is not None:
            name = raw["structStr"]
        elif facts["np_canonical_name"] and raw.get("npName") is not None:
            name = raw["npName"]
        else:
            name = raw["typeName"]
    elif raw.get("asNumpyName") is not None:
        name = raw["asNumpyName"]
    elif raw.get("strVal") is not None:
        name = raw["strVal"]
    else:
        full = raw.get("reprFull", "")
        rule = facts.get("duck_repr_rule", "unknown")
        name = full.rsplit(".", 1)[-1] if rule == "lastComponent" else full.partition(".")[2] if rule == "afterFirstDot" else "?"
    return True if spec == "ANY" else name in spec


def pre_build(facts):
    """regenerate Generated/Backends.lean from the installed libraries before the Lean build"""
    global ROWS
    ROWS = envrows.run()


ROWS = None


def run(tier, seed, out, drv, facts):
    import jax

    rng = Rng(seed, "C03")
    while_another_thread_checks(out)
    rows = ROWS if ROWS is not None else envrows.run()
    cats = {n: getattr(jaxtyping, n) for n in EXPORTED if hasattr(jaxtyping, n)}
    missing = [n for n in EXPORTED if n not in cats]
    if missing:
        out.violation("missing-category:" + ",".join(missing), f"exported categories missing: {missing}", {"missing": missing})
    for r in rows:
        arr = r["make"]()
        label = f"{r['backend']}:{r['alias']}"
        variants = [("eager", arr)]
        for cname, cat in cats.items():
            ann = cat[typing.Any, "..."]
            got = impl.check_once(arr, ann)
            req = required(cname, r["canon"], r["kind"] if r["kind"] != "struct" else "other")
            mv = model_verdict(facts, cname, r["raw"])
            nontriv = (cname in KINDS and r["kind"] in KINDS[cname]) or (cname in PRECISION and any(r["kind"] in ks for c2, ks in KINDS.items() if r["kind"] in ks) and r["kind"] not in ("other", "struct"))
            out.case((label, cname), nontriv, sample={"dtype": r["canon"], "backend": label, "category": cname, "verdict": got, "required": req})
            out.count("verdict_" + got)
            rep = {"dtype": r["canon"], "kind": r["kind"], "backend": label, "category": cname, "observed": got, "required": req, "raw": r["raw"]}
            if got not in ("T", "F"):
                out.violation(f"raises:{label}:{cname}", f"isinstance({label} array, {cname}[Any,'...']) raised {got}", rep)
            elif req is not None and (got == "T") != req:
                out.violation(f"table:{r['backend']}:{r['canon']}:{r['alias']}:{cname}",
                              f"an array of dtype {r['canon']} ({label}) is {'accepted' if got == 'T' else 'rejected'} by {cname} but the documented hierarchy says {'accept' if req else 'reject'}", rep)
            elif mv is not None and (got == "T") != mv:
                out.model_diff(f"dtype-name:{label}:{cname}", f"implementation {got} but the model of the dtype-name extraction says {mv}", rep)
    # a category extended through `Shaped` — `Shaped[Cat[...], ""]`, `Shaped[Shaped[Cat[...], ""], ""]` — still accepts exactly
    # the dtypes of `Cat` (nothing is added by a level that allows every dtype), for every dtype and library
    wrap_cats = [c for c in ("Float32", "Float", "UInt8", "Int", "Bool", "Complex", "Inexact", "Num", "Integer", "BFloat16", "Key") if c in cats]
    for ri, r in enumerate(rows):
        if ri % 2:
            continue
        arr = r["make"]()
        for cname in wrap_cats:
            base = impl.check_once(arr, cats[cname][typing.Any, "..."])
            try:
                two = cats["Shaped"][cats[cname][typing.Any, "..."], ""]
                three = cats["Shaped"][two, ""]
                got = (impl.check_once(arr, two), impl.check_once(arr, three))
            except Exception as e:  # noqa: BLE001
                got = ("BUILD:" + type(e).__name__,) * 2
            out.case(("wrapped", f"{r['backend']}:{r['alias']}", cname), True)
            if got != (base, base):
                out.violation(f"wrapped:{cname}:{r['backend']}", f"dtype {r['canon']} ({r['backend']}:{r['alias']}): {cname} answers {base}, Shaped[{cname}[…], ''] answers {got[0]}, "
                              f"Shaped[Shaped[{cname}[…], ''], ''] answers {got[1]}: a level that allows every dtype must not change the accepted dtypes",
                              {"dtype": r["canon"], "backend": r["backend"], "category": cname, "wrapped": True})
    # same dtype, different libraries: same verdict (also where the documentation is silent)
    by_canon = {}
    for r in rows:
        by_canon.setdefault(r["canon"], []).append(r)
    for canon, rs in by_canon.items():
        if len(rs) < 2:
            continue
        for cname, cat in cats.items():
            vs = {f"{r['backend']}:{r['alias']}": impl.check_once(r["make"](), cat[typing.Any, "..."]) for r in rs}
            if len(set(vs.values())) > 1:
                out.violation(f"backend:{canon}:{cname}", f"dtype {canon} against {cname}: verdict depends on the library / alias: {vs}", {"dtype": canon, "category": cname, "verdicts": vs})
    # tracers carry the same dtype objects
    import jax.numpy as jnp

    for r in rows:
        if r["backend"] != "jax":
            continue
        for cname in ("Float", "Int", "UInt", "Bool", "Complex", "Num", "Shaped"):
            eager = impl.check_once(r["make"](), cats[cname][jax.Array, "..."])
            res = {}

            def f(x, cname=cname, res=res):
                res["v"] = impl.check_once(x, cats[cname][jax.Array, "..."])
                return x

            try:
                jax.jit(f)(r["make"]())
            except Exception as e:  # noqa: BLE001
                res["v"] = "ERR:" + type(e).__name__
            out.case(("tracer", r["alias"], cname), True)
            if res.get("v") != eager:
                out.violation(f"tracer:{r['canon']}:{cname}", f"under jit the verdict is {res.get('v')} but eagerly {eager}", {"dtype": r["canon"], "category": cname})
    # make_numpy_struct_dtype
    import numpy as np

    label_t = np.dtype([("first", np.uint8), ("second", np.int8)])
    other_t = np.dtype([("first", np.uint8), ("second", np.int16)])
    Label = jaxtyping.make_numpy_struct_dtype(label_t, "Label")
    for d, want in ((label_t, "T"), (other_t, "F"), (np.dtype(np.float32), "F"), (np.dtype(np.void), "F")):
        got = impl.check_once(np.zeros(2, dtype=d), Label[np.ndarray, "..."])
        out.case(("struct", str(d)), True)
        if got != want:
            out.violation(f"struct:{d}", f"make_numpy_struct_dtype class gives {got} for dtype {d}, must be {want}", {"dtype": str(d)})
    # structured dtypes whose printed form has upper-case type codes / field names: a class made for the dtype accepts
    # exactly that dtype (names are compared as they are: no case folding, no trimming)
    structs = [
        np.dtype([("name", "U10"), ("score", np.float32)]), np.dtype([("tag", "S4"), ("n", np.int32)]),
        np.dtype([("when", "M8[ns]"), ("v", np.float64)]), np.dtype([("dt", "m8[s]")]), np.dtype([("X", np.float32), ("Y", np.float32)]),
        np.dtype([("x", np.float32), ("y", np.float32)]), np.dtype([("obj", "O")]), np.dtype([("Name", "U10"), ("score", np.float32)]),
        np.dtype([("inner", [("A", np.int8), ("b", "U2")]), ("k", np.uint8)]),
    ]
    classes = [jaxtyping.make_numpy_struct_dtype(d, f"Struct{i}") for i, d in enumerate(structs)]
    for i, cls_ in enumerate(classes):
        for j, d in enumerate(structs):
            got = impl.check_once(np.zeros(1, dtype=d), cls_[np.ndarray, "..."])
            want = "T" if str(structs[i]) == str(d) else "F"
            out.case(("struct2", i, j), True)
            if got != want:
                out.violation(f"struct:{'accept' if want == 'T' else 'reject'}:case", f"the class made for {structs[i]} gives {got} for an array of dtype {d}, must be {want}",
                              {"category_dtype": str(structs[i]), "dtype": str(d)})
    # non-numeric NumPy dtypes under user categories: the name is that of the scalar type whatever the item size or
    # unit, the same name a duck-typed array reports for the same data
    nonnum = [np.dtype("U3"), np.dtype("U24"), np.dtype("S1"), np.dtype("S6"), np.dtype("O"), np.dtype("M8[ns]"), np.dtype("M8[D]"),
              np.dtype("m8[s]"), np.dtype("m8"), np.dtype(np.bool_)]
    for d in nonnum:
        tname = d.type.__name__
        for names in ([tname], [d.name], ["bool", "bool_"], ["str_", "bytes_", "object_"], ["datetime64", "timedelta64"]):
            U = type("UserNN", (jaxtyping.AbstractDtype,), {"dtypes": list(names)})
            got_np = impl.check_once(np.zeros(2, dtype=d), U[np.ndarray, "..."])
            got_duck = impl.check_once(envrows.DuckArr(tname), U[typing.Any, "..."])
            want = "T" if tname in names else "F"
            out.case(("nonnumeric", str(d), tuple(names)), True)
            if got_np != want or got_duck != want:
                out.violation(f"user-category:nonnumeric:{'accept' if want == 'T' else 'reject'}",
                              f"user category {names} on a NumPy array of dtype {d} (scalar type {tname}) gives {got_np}, on a duck array naming its dtype {tname!r} "
                              f"gives {got_duck}; both must be {want}", {"dtype": str(d), "category": names})
    # user-defined categories: strings and patterns
    universe = sorted({r["canon"] for r in rows} | {"my_dtype", "float", "int", "uint81", "xfloat32", "float32x", "", "QInt8", "qint8", "Float32",
                                                     " float32", "float32 ", "BFloat16", "FLOAT64"})
    n_user = 2000 if tier == "thorough" else 150
    for i in range(n_user):
        strings = rng.sample(universe, rng.below(4))
        if i % 5 == 0:
            strings = rng.sample(["QInt8", "Float32", " float32", "float32 ", "BFloat16", "FLOAT64"], 1 + rng.below(2)) + strings[:1]
        pats = rng.sample(["float.*", "u?int(8|16)", "^complex", "bool_?", ".*16", "int", "(?i)FLOAT32", "float32$"], rng.below(3))
        form = rng.below(4)
        if form == 0 and len(strings) == 1 and not pats:
            dtypes = strings[0]
        elif form == 1 and len(pats) == 1 and not strings:
            dtypes = re.compile(pats[0])
        elif form == 2:
            dtypes = tuple(strings) + tuple(re.compile(p) for p in pats)
        else:
            dtypes = list(strings) + [re.compile(p) for p in pats]
        try:
            U = type(f"User{i}", (jaxtyping.AbstractDtype,), {"dtypes": dtypes})
        except Exception as e:  # noqa: BLE001
            out.violation(f"user-category:{type(e).__name__}", f"defining a category with dtypes={dtypes!r} raised {e!r}", {"dtypes": repr(dtypes)})
            continue
        for d in rng.sample(universe, 12) + [x for s_ in strings for x in (s_, s_.lower(), s_.strip(), s_.upper())]:
            got = impl.check_once(envrows.DuckArr(d), U[typing.Any, "..."])
            want = (d in strings) or any(re.compile(p).match(d) for p in pats)
            if isinstance(dtypes, str):
                want = d == dtypes
            elif isinstance(dtypes, re.Pattern):
                want = bool(dtypes.match(d))
            out.case(("user", i, d), bool(strings or pats))
            if (got == "T") != want:
                out.violation(f"user-category:{'accept' if want else 'reject'}", f"user category with dtypes={dtypes!r} gives {got} for dtype name {d!r}, must {'accept' if want else 'reject'}", {"dtypes": repr(dtypes), "dtype": d})


def while_another_thread_checks(out):
    """what a category accepts is a matter of the dtype alone — also WHILE another thread is in the middle of a check of
    its own: parked inside the flattening of a PyTree (a registered node whose flatten function waits), inside a decorated
    call, inside a leaf check. The verdicts of this thread are those it gets alone."""
    import threading

    import jax.numpy as jnp
    import jax.tree_util as jtu
    import numpy as np
    from jaxtyping import Bool, Float, Int, PyTree, jaxtyped

    gate_in, gate_go = threading.Event(), threading.Event()

    class Parked:
        pass

    def flat(node):
        gate_in.set()
        gate_go.wait(30)
        return (), None

    try:
        jtu.register_pytree_node(Parked, flat, lambda aux, ch: Parked())
    except ValueError:
        pass

    class Half(jaxtyping.AbstractDtype):
        dtypes = ["float16"]

    rows = [("numpy int32 vs Float", np.zeros(2, np.int32), Float[np.ndarray, "..."], "F"), ("numpy float32 vs Float", np.zeros(2, np.float32), Float[np.ndarray, "..."], "T"),
            ("numpy float32 vs Int", np.zeros(2, np.float32), Int[np.ndarray, "..."], "F"), ("jax bfloat16 vs Bool", jnp.zeros(2, jnp.bfloat16), Bool[jnp.ndarray, "..."], "F"),
            ("jax bool vs Bool", jnp.zeros(2, bool), Bool[jnp.ndarray, "..."], "T"), ("duck int8 vs Float", envrows.DuckArr("int8"), Float[typing.Any, "..."], "F"),
            ("duck float16 vs Half", envrows.DuckArr("float16"), Half[typing.Any, "..."], "T"), ("jax float32 vs Half", jnp.zeros(2, jnp.float32), Half[jnp.ndarray, "..."], "F")]

    def verdicts():
        return [impl.check_once(v, ann) for _, v, ann, _ in rows]

    want = [w for *_, w in rows]
    alone = verdicts()

    def parked_in_flatten():
        isinstance([np.zeros(2, np.float32), Parked()], PyTree[Float[np.ndarray, "..."]])

    def parked_in_call():
        @jaxtyped(typechecker=None)
        def f(x):
            isinstance(x, Float[np.ndarray, "n"])
            gate_in.set()
            gate_go.wait(30)

        f(np.zeros(3, np.float32))

    # ... and in THIS thread after checks that were aborted by an exception and caught (a PyTree whose leaf type raises while
    # the tree is being flattened, a registered node whose flatten raises): the table is what it was
    class Exploding:
        pass

    def boom(_):
        raise RuntimeError("flatten")

    try:
        jtu.register_pytree_node(Exploding, boom, lambda aux, ch: Exploding())
    except ValueError:
        pass
    aborted = []
    for what, thunk in (("leaf type raises", lambda: isinstance([1.0, 2.0], PyTree[Float])), ("flatten raises", lambda: isinstance([Exploding()], PyTree[int])),
                        ("leaf type raises, structured", lambda: isinstance({"k": 1.0}, PyTree[Float, "T"]))):
        try:
            thunk()
            aborted.append(what + ": returned")
        except BaseException as e:  # noqa: BLE001
            aborted.append(what + ": " + type(e).__name__)
        got = verdicts()
        out.case(("after-aborted-check", what), True, sample={"aborted": aborted[-1], "verdicts": got})
        if got != want:
            k = next(i for i, (a, b) in enumerate(zip(got, want)) if a != b)
            out.violation("after-aborted-check", f"{rows[k][0]}: after a PyTree check that was aborted ({aborted[-1]}, caught) the check answers {got[k]}, the category says {want[k]} "
                          f"(all rows: {got}, required {want})", {"while_another_thread": "after-aborted"})
            return
    for wname, work in (("inside the flattening of a PyTree", parked_in_flatten), ("inside a decorated call", parked_in_call)):
        gate_in.clear()
        gate_go.clear()
        t = threading.Thread(target=work, daemon=True)
        t.start()
        if not gate_in.wait(30):
            out.count("other_thread_did_not_park")
            gate_go.set()
            continue
        try:
            during = verdicts()
        finally:
            gate_go.set()
            t.join(30)
        after = verdicts()
        out.case(("while-another-thread", wname), True, sample={"other_thread": wname, "alone": alone, "during": during, "after": after})
        for label, got in (("alone", alone), ("while another thread is " + wname, during), ("after it finished", after)):
            if got != want:
                k = next(i for i, (a, b) in enumerate(zip(got, want)) if a != b)
                out.violation("while-another-thread:" + ("during" if "while" in label else label.split()[0]), f"{rows[k][0]}: {label} the check answers {got[k]}, the category says {want[k]} "
                              f"(all rows: {got}, required {want})", {"while_another_thread": wname})
                return


def extra_coverage():
    return {"exhaustive": True}


def replay(rep, out, drv, facts):
    if "while_another_thread" in rep:
        while_another_thread_checks(out)
        return
    run("quick", 0, out, drv, facts)
