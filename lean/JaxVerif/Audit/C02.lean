import JaxVerif.Properties.C02

#print axioms JV.C02_seq_iff
#print axioms JV.C02_perm
#print axioms JV.C02_recheck
#print axioms JV.C02_checkParams_eq
