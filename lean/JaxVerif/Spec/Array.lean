/-
Declarative meaning of a dim specification: when does a shape match under a *total*
assignment of sizes to axis names and of shapes to `*names`.  (C01 / C02 / C16)
-/
import JaxVerif.Model.Core

namespace JV

/-- pointwise relation of two lists of equal length -/
inductive All2 {α β : Type} (R : α → β → Prop) : List α → List β → Prop
  | nil : All2 R [] []
  | cons {a b as bs} : R a b → All2 R as bs → All2 R (a :: as) (b :: bs)

/-- a total assignment: one size per single-axis key, one shape per multi-axis key -/
structure Asg where
  single : Key → Nat
  var : Key → List Nat

/-- evaluation of a symbolic axis under a total assignment -/
def Expr.evalTCore (args : Args) (α : Key → Nat) : Expr → Res Int
  | .lit n => .ok n
  | .var x => .ok (α (.plain x))
  | .hole x => match args.lookup x with
    | some (.int n) => .ok n
    | some (.raises e) => .exc e
    | none => .annErr
  | .neg a => do let x ← a.evalTCore args α; pure (-x)
  | .add a b => do let x ← a.evalTCore args α; let y ← b.evalTCore args α; pure (x + y)
  | .sub a b => do let x ← a.evalTCore args α; let y ← b.evalTCore args α; pure (x - y)
  | .mul a b => do let x ← a.evalTCore args α; let y ← b.evalTCore args α; pure (x * y)
  | .fdiv a b => do
      let x ← a.evalTCore args α; let y ← b.evalTCore args α
      if y = 0 then .exc .exception else pure (Int.fdiv x y)

/-- two passes, as in the code: format every `{x}` first, then evaluate -/
def Expr.evalT (args : Args) (α : Key → Nat) (e : Expr) : Res Int :=
  gate (holesPass args e.holes) (e.evalTCore args α)

/-- `s` can be broadcast *to* `v` (numpy rule, sizes may be 0) -/
def BroadcastsTo (s v : List Nat) : Prop := bcast s v = some v

/-- one axis of size `n` matches specifier `d` -/
def SatDim (tp : TreePath) (args : Args) (α : Key → Nat) : Dim → Nat → Prop
  | .anon, _ => True
  | .fixed k b, n => (b = true ∧ n = 1) ∨ k = (n : Int)
  | .named x b isTp, n => (b = true ∧ n = 1) ∨ ∃ key, keyOf tp x isTp = .ok key ∧ α key = n
  | .sym e b, n => (b = true ∧ n = 1) ∨ e.evalT args α = .ok (n : Int)

/-- the axes `mid` consumed by a multi-axis specifier match it -/
def SatVar (tp : TreePath) (α : Key → List Nat) : VDim → List Nat → Prop
  | .anonVar, _ => True
  | .namedVar x b isTp, mid =>
    ∃ key, keyOf tp x isTp = .ok key ∧ (if b then BroadcastsTo mid (α key) else mid = α key)

/-- a whole shape matches a whole specification: the shape splits as prefix ++ middle ++ suffix -/
def Matches (tp : TreePath) (args : Args) (α : Asg) (sh : Shape) (shape : List Nat) : Prop :=
  match sh.var with
  | none => All2 (SatDim tp args α.single) sh.pre shape
  | some (v, suf) =>
    ∃ p m s, shape = p ++ m ++ s ∧ All2 (SatDim tp args α.single) sh.pre p ∧
      All2 (SatDim tp args α.single) suf s ∧ SatVar tp α.var v m

/-- `α` agrees with everything the memo already binds -/
def ExtendsSingle (α : Key → Nat) (σ : Single) : Prop := ∀ k n, σ.lookup k = some n → α k = n

def ExtendsVar (α : Key → List Nat) (ν : Variadic) : Prop :=
  ∀ k b s, ν.lookup k = some (b, s) → if b then BroadcastsTo s (α k) else s = α k

def Extends (α : Asg) (σ : Single) (ν : Variadic) : Prop :=
  ExtendsSingle α.single σ ∧ ExtendsVar α.var ν

/-- a history of uses `(isBroadcastable, middleShape)` of one `*name`, starting from memo `st` -/
def vrun : Option (Bool × List Nat) → List (Bool × List Nat) → Option (Option (Bool × List Nat))
  | st, [] => some st
  | st, (b, n) :: rest =>
    match vstep st b n with
    | none => none
    | some st' => vrun (some st') rest

/-- the shape `v` of `*name` is consistent with one use -/
def SatV (v : List Nat) (u : Bool × List Nat) : Prop :=
  if u.1 then BroadcastsTo u.2 v else u.2 = v

/-- the shape `v` is consistent with what the memo already holds -/
def ExtV (v : List Nat) : Option (Bool × List Nat) → Prop
  | none => True
  | some (true, s) => BroadcastsTo s v
  | some (false, s) => s = v

end JV
