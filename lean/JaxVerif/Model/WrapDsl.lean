/-
A small imperative language with exceptions for the bodies of the `jaxtyped` wrappers
(jaxtyping/_decorator.py): the new-style `wrapped_fn` and its helper frame `wrapped_fn_impl`, the
old-style / `typechecker=None` `wrapped_fn`, and `_JaxtypingContext.__enter__` / `__exit__`.
The translator (harness/translate.py) turns the current Python source of these five function bodies
into terms of this language (`Generated/WrapperCode.lean`); `Properties/C05.lean`, `C13.lean` and
`C19.lean` prove, on every run, that running the translated code is the `call` / `ctx` step of the
hand-written model (`callStep` / `ctxStep` with every structural fact `true`) for every argument list,
every body, every verdict of the typechecker and every way the body may end.
The interpreter is strict: whatever the translator does not recognise becomes `.unknown`, reading a
local that was never assigned crashes, and a crash never equals a result of the model, so the proof
fails rather than silently passing. Core Lean only.
-/
import JaxVerif.Model.Call

namespace JV

/-- exceptions in flight, as far as handlers and the final outcome can tell them apart -/
inductive WExc
  | ann                              -- AnnotationError
  | typeErr                          -- the typechecker's TypeError (a check answered False)
  | exc (e : Exc)                    -- raised by user code (body, `__instancecheck__`, flatteners …)
  | bind                             -- the ordinary TypeError of a call that does not bind
  | tceInner (blame : Option String) -- TypeCheckError raised by `_get_problem_arg`
  | tceParams (blame : Option String)
  | tceReturn
  deriving DecidableEq, Repr

/-- classes named in `except` clauses -/
inductive WCls
  | annotationError | typeCheckError | typeError | exception | baseException | attributeError | nameError
  deriving DecidableEq, Repr

def WCls.covers : WCls → WExc → Bool
  | .annotationError, .ann => true
  | .typeCheckError, .tceInner _ => true
  | .typeCheckError, .tceParams _ => true
  | .typeCheckError, .tceReturn => true
  | .typeError, .typeErr => true
  | .typeError, .bind => true
  | .typeError, .tceInner _ => true
  | .typeError, .tceParams _ => true
  | .typeError, .tceReturn => true
  | .exception, .exc .baseException => false
  | .exception, _ => true
  | .baseException, _ => true
  | _, _ => false

def WExc.outcome : WExc → CallOutcome
  | .ann => .ann
  | .typeErr => .checkerError
  | .exc e => .exc e
  | .bind => .bindError
  | .tceInner b => .tceParams b
  | .tceParams b => .tceParams b
  | .tceReturn => .tceReturn

inductive WCond
  | disabled      -- `config.jaxtyping_disable or getattr(fn, "__no_type_check__", False) or getattr(<wrapper>, …)`
  | hasRet        -- `full_signature.return_annotation is not inspect.Signature.empty`
  | removeStack   -- `config.jaxtyping_remove_typechecker_stack`
  | noteWanted    -- `sys.version_info >= (3, 11) and _no_jaxtyping_note(e)` (old style; message only)
  | unknown
  deriving DecidableEq, Repr

inductive WStage | params | ret
  deriving DecidableEq, Repr

inductive WStmt
  | skip
  | seq (a b : WStmt)
  | ite (c : WCond) (t e : WStmt)
  | bind                          -- `bound = <signature>.bind(*args, **kwargs)`
  | applyDefaults                 -- `bound.apply_defaults()`
  | push                          -- `[memos =] push_shape_memo(bound.arguments)`
  | pushEmpty                     -- `push_shape_memo({})`
  | pop                           -- `pop_shape_memo()`
  | tryFinally (b f : WStmt)
  | tryExcept (b hs : WStmt)      -- `hs` is a chain of `.handler`s closed by `.endHandlers`
  | handler (cls : WCls) (body next : WStmt)
  | endHandlers
  | retFn                         -- `return fn(*args, **kwargs)`
  | callFn                        -- `out = fn(*args, **kwargs)`
  | retOut                        -- `return out`
  | retImpl                       -- `return wrapped_fn_impl(args, kwargs, bound, memos)`
  | paramFn                       -- `param_fn(*args, **kwargs)`
  | storeOut                      -- `kwargs[output_name] = out`
  | fullFn                        -- `full_fn(*args, **kwargs)`
  | getProblemArg                 -- `argmsg = _get_problem_arg(param_signature, args, kwargs, bound.arguments, …)`
  | reraise                       -- bare `raise`
  | raiseTce (stage : WStage) (current : Bool)
      -- `raise TypeCheckError(msg) from …`; `current` = the text ends with `shape_str(get_shape_memo())`
  | message                       -- statements that only assemble message text / attach a note
  | unknown
  deriving Repr

/-- what kind of callable `fn` is inside the wrapper -/
inductive FnKind
  | plain          -- the user's function
  | typechecked    -- old style: the user's function already wrapped by the typechecker
  deriving DecidableEq, Repr

structure WEnv where
  sk : Skel
  params : List Param
  ret : Option (LType × Obj)
  bindOk : Bool
  noTc : Bool
  body : TState → TState × List Obs
  exit : Exit
  removeStack : Bool
  noteWanted : Bool
  /-- what happens inside statements that only assemble message text (they run user code: `__repr__`, `__setattr__` of
      the exception a note is attached to, …): `none` = they complete, `some e` = the first one reached raises `e` -/
  msgFault : Option Exc
  fn : FnKind
  impl : WStmt

structure WSt where
  st : TState
  obs : List Obs := []
  bound : Bool := false
  defaults : Bool := false
  out : Bool := false
  outStored : Bool := false
  caught : Option WExc := none

inductive WRes
  | normal (s : WSt)
  | ret (s : WSt)
  | raised (x : WExc) (s : WSt)
  | crash

def verdictRes (v : Verdict) (s : WSt) : WRes :=
  match v with
  | .T => .normal s
  | .F => .raised .typeErr s
  | .ANN => .raised .ann s
  | .EXC e => .raised (.exc e) s

def exitRes (e : Exit) (s : WSt) : WRes :=
  match e with
  | .ret => .normal { s with out := true }
  | .raiseExc => .raised (.exc .exception) s
  | .raiseBase => .raised (.exc .baseException) s

/-- the call `fn(*args, **kwargs)` -/
def callFnRes (env : WEnv) (s : WSt) : WRes :=
  if !env.bindOk then .raised .bind s
  else
    match env.fn with
    | .plain =>
      exitRes env.exit { s with st := (env.body s.st).1, obs := s.obs ++ [.bodyStart] ++ (env.body s.st).2 }
    | .typechecked =>
      -- the typechecker's own wrapper: parameters, body, return value, in the current context
      match (checkParams env.sk env.params s.st).2.1 with
      | .T =>
        let s1 : WSt := { s with st := (env.body (checkParams env.sk env.params s.st).1).1,
                                 obs := s.obs ++ [.bodyStart] ++ (env.body (checkParams env.sk env.params s.st).1).2 }
        match env.exit with
        | .ret =>
          match env.ret with
          | none => .normal { s1 with out := true }
          | some (l, x) =>
            verdictRes (onTop s1.st (checkL env.sk l x)).2
              { s1 with st := (onTop s1.st (checkL env.sk l x)).1, out := true }
        | e => exitRes e s1
      | v => verdictRes v { s with st := (checkParams env.sk env.params s.st).1 }

def WCond.eval (env : WEnv) (s : WSt) : WCond → Option Bool
  | .disabled => some (s.st.disable || env.noTc)
  | .hasRet => some env.ret.isSome
  | .removeStack => some env.removeStack
  | .noteWanted => some env.noteWanted
  | .unknown => none

/-- `implRun` is what `wrapped_fn_impl(args, kwargs, bound, memos)` does (the helper frame is run by the same
    interpreter, one level down, where a further `retImpl` crashes) -/
def WStmt.run (env : WEnv) (implRun : WSt → WRes) : WStmt → WSt → WRes
  | .skip, s => .normal s
  | .message, s =>
    (match env.msgFault with
     | none => .normal s
     | some e => .raised (.exc e) s)
  | .seq a b, s =>
    (match a.run env implRun s with
     | .normal s' => b.run env implRun s'
     | r => r)
  | .ite c t e, s =>
    (match c.eval env s with
     | none => .crash
     | some true => t.run env implRun s
     | some false => e.run env implRun s)
  | .bind, s => if env.bindOk then .normal { s with bound := true } else .raised .bind s
  | .applyDefaults, s => if s.bound then .normal { s with defaults := true } else .crash
  | .push, s =>
    if s.bound && s.defaults then
      .normal { s with st := { s.st with stack := { args := argsOf env.params } :: s.st.stack } }
    else .crash
  | .pushEmpty, s => .normal { s with st := { s.st with stack := ({} : Memo) :: s.st.stack } }
  | .pop, s => .normal { s with st := popStack s.st }
  | .tryFinally b f, s =>
    (match b.run env implRun s with
     | .crash => .crash
     | .normal s' => f.run env implRun s'
     | .ret s' =>
       (match f.run env implRun s' with
        | .normal s'' => .ret s''
        | r => r)
     | .raised x s' =>
       (match f.run env implRun s' with
        | .normal s'' => .raised x s''
        | r => r))
  | .tryExcept b hs, s =>
    (match b.run env implRun s with
     | .raised x s' => hs.run env implRun { s' with caught := some x }
     | r => r)
  | .handler cls body next, s =>
    (match s.caught with
     | none => .crash
     | some x => if cls.covers x then body.run env implRun s else next.run env implRun s)
  | .endHandlers, s =>
    (match s.caught with
     | none => .crash
     | some x => .raised x s)
  | .retFn, s =>
    (match callFnRes env s with
     | .normal s' => .ret s'
     | r => r)
  | .callFn, s => callFnRes env s
  | .retOut, s => if s.out then .ret s else .crash
  | .retImpl, s =>
    (match implRun s with
     | .normal _ => .crash          -- the helper frame fell off its end: the result would be lost
     | r => r)
  | .paramFn, s =>
    verdictRes (checkParams env.sk env.params s.st).2.1 { s with st := (checkParams env.sk env.params s.st).1 }
  | .storeOut, s => if s.out then .normal { s with outStored := true } else .crash
  | .fullFn, s =>
    if !s.outStored then .crash
    else
      (match (checkParams env.sk env.params s.st).2.1 with
       | .T =>
         (match env.ret with
          | none => .normal { s with st := (checkParams env.sk env.params s.st).1 }
          | some (l, x) =>
            verdictRes (onTop (checkParams env.sk env.params s.st).1 (checkL env.sk l x)).2
              { s with st := (onTop (checkParams env.sk env.params s.st).1 (checkL env.sk l x)).1 })
       | v => verdictRes v { s with st := (checkParams env.sk env.params s.st).1 })
  | .getProblemArg, s =>
    if !(s.bound && s.defaults) then .crash
    else
      (match (problemArg env.sk env.params s.st).2 with
       | .inl b => .raised (.tceInner b) { s with st := (problemArg env.sk env.params s.st).1 }
       | .inr e => .raised (.exc e) { s with st := (problemArg env.sk env.params s.st).1 })
  | .reraise, s =>
    (match s.caught with
     | none => .crash
     | some x => .raised x s)
  | .raiseTce stage current, s =>
    if !current then .crash
    else
      (match stage, s.caught with
       | .params, some (.tceInner b) =>
         .raised (.tceParams b) { s with obs := s.obs ++ [.tceBindings (topMemo s.st)] }
       | .ret, some _ => .raised .tceReturn { s with obs := s.obs ++ [.tceBindings (topMemo s.st)] }
       | _, _ => .crash)
  | .unknown, _ => .crash

/-- what the caller of the wrapper sees: final thread state and observations; `none` = the translated
    code left the fragment the interpreter gives a meaning to -/
def WRes.finish : WRes → Option (TState × List Obs)
  | .ret s => some (s.st, s.obs ++ [.outcome .returned])
  | .raised x s => some (s.st, s.obs ++ [.outcome x.outcome])
  | .normal _ => none       -- a wrapper that falls off its end returns None instead of the result
  | .crash => none

def runWrapper (env : WEnv) (code : WStmt) (st : TState) : Option (TState × List Obs) :=
  (code.run env (fun s => env.impl.run env (fun _ => .crash) s) { st := st }).finish

/-- `with jaxtyped("context"):` — `__enter__`, the block, `__exit__` (whose normal completion returns None, so
    the block's exception continues) -/
def runCtx (enter exit_ : WStmt) (mf : Option Exc) (B : TState → TState × List Obs) (exit : Exit) (st : TState) :
    Option (TState × List Obs) :=
  let env : WEnv := { sk := ⟨.exceptionOnly, .exceptionOnly, true, true, true, true⟩, params := [], ret := none,
                      bindOk := true, noTc := false, body := B, exit := exit, removeStack := false,
                      noteWanted := false, msgFault := mf, fn := .plain, impl := .unknown }
  match enter.run env (fun _ => .crash) { st := st } with
  | .normal s1 =>
    let s2 : WSt := { s1 with st := (B s1.st).1, obs := s1.obs ++ (B s1.st).2 }
    (match exit_.run env (fun _ => .crash) s2 with
     | .normal s3 => some (s3.st, s3.obs ++ [.outcome (exitOutcome exit)])
     | .raised x s3 => some (s3.st, s3.obs ++ [.outcome x.outcome])   -- `__exit__` itself raised
     | _ => none)
  | _ => none

end JV
