/-
A small language for the binding-stack functions of jaxtyping/_storage.py: `_has_shape_memo`, `get_shape_memo`,
`set_shape_memo`, `push_shape_memo`, `pop_shape_memo` and the helpers they call. The translator
(harness/translate_storage.py) turns the current source into `Generated/StorageCode.lean`; `Source/Storage.lean`
proves on every run that the translated functions are the stack operations the model works with (`onTop`, `topMemo`,
`popStack`, the push of Model/Call.lean): for EVERY content of the thread's cell — attribute missing, empty stack,
non-empty stack — reading hands out the top frame or four throw-away tables, writing replaces the top frame only when
there is one, pushing puts one fresh frame with a copy of the arguments on top and creates the stack if it is missing,
popping takes exactly the top frame off.

Values are symbolic: a frame is named by where it came from (the top of the stack, the four tables passed to
`set_shape_memo`, four fresh empty tables, the fresh frame of a push); a 4-tuple display is a frame only if its four
components are the four tables of ONE source in order (a swap is no frame: the interpreter crashes). There is one
list object per thread: the value `.stack` is a reference to the list held by the cell. Anything the translator does
not recognise is `.unknown`, on which the interpreter crashes, so the theorems fail rather than pass silently.
Python's list end (`append`, `pop()`, `[-1]`) is the head of the model's list. Core Lean only.
-/
import JaxVerif.Model.Core

namespace JV

inductive FrameSrc
  | top        -- `stack[-1]`
  | param      -- the four tables passed to `set_shape_memo`
  | empty      -- `{}, {}, {}, {}`
  | fresh      -- `({}, {}, {}, arguments.copy())`
  deriving DecidableEq, Repr

inductive SVal
  | none
  | bool (b : Bool)
  | stack                              -- the list in `_shape_storage.memo_stack`
  | tbl (src : FrameSrc) (k : Nat)     -- the k-th table of a frame
  | emptyTbl                           -- `{}`
  | argsCopy                           -- `arguments.copy()`
  | frame (src : FrameSrc)
  deriving DecidableEq, Repr

inductive SExpr
  | noneLit
  | boolLit (b : Bool)
  | loc (n : Nat)                      -- a local name (numbered by the translator)
  | attrStack                          -- `_shape_storage.memo_stack` (AttributeError when missing)
  | getattrStack (dflt : SExpr)        -- `getattr(_shape_storage, "memo_stack", dflt)`
  | hasattrStack                       -- `hasattr(_shape_storage, "memo_stack")`
  | isNone (e : SExpr)
  | not (e : SExpr)
  | and (a b : SExpr)
  | or (a b : SExpr)
  | nonEmpty (e : SExpr)               -- `len(e) != 0`, `len(e) > 0`, `bool(e)` of a list
  | last (e : SExpr)                   -- `e[-1]`
  | tuple4 (a b c d : SExpr)
  | emptyDict
  | argsCopy
  | param (k : Nat)                    -- the k-th parameter of `set_shape_memo`
  | call (f : Nat)                     -- a helper of the module, without arguments
  | unknown
  deriving Repr

inductive SStmt
  | skip
  | seq (a b : SStmt)
  | ite (c : SExpr) (t e : SStmt)
  | assign (n : Nat) (e : SExpr)
  | unpack4 (n0 n1 n2 n3 : Nat) (e : SExpr)
  | newStack (n : Option Nat)          -- `_shape_storage.memo_stack = []` / `n = _shape_storage.memo_stack = []`
  | setLast (s v : SExpr)              -- `s[-1] = v`
  | append (s v : SExpr)               -- `s.append(v)`
  | pop (s : SExpr)                    -- `s.pop()`
  | tryAttr (body handler : SStmt)     -- `try: body except AttributeError: handler`
  | ret (e : SExpr)
  | retNone
  | unknown
  deriving Repr

structure SSt where
  /-- `none` = this thread has no attribute `memo_stack` -/
  cell : Option (List Memo)
  locals : List (Nat × SVal)

/-- the arguments of the call being interpreted: the memo handed to `set_shape_memo`, the arguments handed to
    `push_shape_memo` -/
structure SCtx where
  M : Memo
  A : Args

inductive ERes
  | ok (s : SSt) (v : SVal)
  | attrErr (s : SSt)
  | crash

inductive SRes
  | normal (s : SSt)
  | returned (s : SSt) (v : SVal)
  | attrErr (s : SSt)
  | crash

def frameOf : SVal → SVal → SVal → SVal → Option FrameSrc
  | .tbl s0 0, .tbl s1 1, .tbl s2 2, .tbl s3 3 => if s0 = s1 ∧ s1 = s2 ∧ s2 = s3 then some s0 else none
  | .emptyTbl, .emptyTbl, .emptyTbl, .emptyTbl => some .empty
  | .emptyTbl, .emptyTbl, .emptyTbl, .argsCopy => some .fresh
  | _, _, _, _ => none

def resolve (ctx : SCtx) (top : Memo) : FrameSrc → Memo
  | .top => top
  | .param => ctx.M
  | .empty => {}
  | .fresh => { args := ctx.A }

def truthy : SVal → Option Bool
  | .bool b => some b
  | .none => some false
  | _ => none

mutual
/-- `funs` = the module's helpers (numbered), run with fresh locals; `fuel` bounds the nesting of helper calls -/
def SExpr.eval (funs : List SStmt) (ctx : SCtx) : Nat → SExpr → SSt → ERes
  | _, .noneLit, s => .ok s .none
  | _, .boolLit b, s => .ok s (.bool b)
  | _, .loc n, s => (match s.locals.lookup n with | some v => .ok s v | none => .crash)
  | _, .attrStack, s => (match s.cell with | some _ => .ok s .stack | none => .attrErr s)
  | fuel, .getattrStack d, s => (match s.cell with | some _ => .ok s .stack | none => d.eval funs ctx fuel s)
  | _, .hasattrStack, s => .ok s (.bool s.cell.isSome)
  | fuel, .isNone e, s =>
    (match e.eval funs ctx fuel s with
     | .ok s1 .none => .ok s1 (.bool true)
     | .ok s1 .stack => .ok s1 (.bool false)
     | .ok _ _ => .crash
     | r => r)
  | fuel, .not e, s =>
    (match e.eval funs ctx fuel s with
     | .ok s1 v => (match truthy v with | some b => .ok s1 (.bool (!b)) | none => .crash)
     | r => r)
  | fuel, .and a b, s =>
    (match a.eval funs ctx fuel s with
     | .ok s1 v => (match truthy v with | some true => b.eval funs ctx fuel s1 | some false => .ok s1 v | none => .crash)
     | r => r)
  | fuel, .or a b, s =>
    (match a.eval funs ctx fuel s with
     | .ok s1 v => (match truthy v with | some false => b.eval funs ctx fuel s1 | some true => .ok s1 v | none => .crash)
     | r => r)
  | fuel, .nonEmpty e, s =>
    (match e.eval funs ctx fuel s with
     | .ok s1 .stack => (match s1.cell with | some l => .ok s1 (.bool (!l.isEmpty)) | none => .crash)
     | .ok _ _ => .crash
     | r => r)
  | fuel, .last e, s =>
    (match e.eval funs ctx fuel s with
     | .ok s1 .stack => (match s1.cell with | some (_ :: _) => .ok s1 (.frame .top) | _ => .crash)     -- IndexError on an empty list
     | .ok _ _ => .crash
     | r => r)
  | fuel, .tuple4 a b c d, s =>
    (match a.eval funs ctx fuel s with
     | .ok s1 va =>
       (match b.eval funs ctx fuel s1 with
        | .ok s2 vb =>
          (match c.eval funs ctx fuel s2 with
           | .ok s3 vc =>
             (match d.eval funs ctx fuel s3 with
              | .ok s4 vd => (match frameOf va vb vc vd with | some src => .ok s4 (.frame src) | none => .crash)
              | r => r)
           | r => r)
        | r => r)
     | r => r)
  | _, .emptyDict, s => .ok s .emptyTbl
  | _, .argsCopy, s => .ok s .argsCopy
  | _, .param k, s => .ok s (.tbl .param k)
  | 0, .call _, _ => .crash
  | fuel + 1, .call f, s =>
    (match funs[f]? with
     | none => .crash
     | some body =>
       (match body.run funs ctx fuel { s with locals := [] } with
        | .returned s1 v => .ok { s1 with locals := s.locals } v
        | .normal s1 => .ok { s1 with locals := s.locals } .none
        | .attrErr s1 => .attrErr { s1 with locals := s.locals }
        | .crash => .crash))
  | _, .unknown, _ => .crash

def SStmt.run (funs : List SStmt) (ctx : SCtx) : Nat → SStmt → SSt → SRes
  | _, .skip, s => .normal s
  | fuel, .seq a b, s => (match a.run funs ctx fuel s with | .normal s1 => b.run funs ctx fuel s1 | r => r)
  | fuel, .ite c t e, s =>
    (match c.eval funs ctx fuel s with
     | .ok s1 v => (match truthy v with | some true => t.run funs ctx fuel s1 | some false => e.run funs ctx fuel s1 | none => .crash)
     | .attrErr s1 => .attrErr s1
     | .crash => .crash)
  | fuel, .assign n e, s =>
    (match e.eval funs ctx fuel s with
     | .ok s1 v => .normal { s1 with locals := (n, v) :: s1.locals }
     | .attrErr s1 => .attrErr s1
     | .crash => .crash)
  | fuel, .unpack4 n0 n1 n2 n3 e, s =>
    (match e.eval funs ctx fuel s with
     | .ok s1 (.frame src) => .normal { s1 with locals := (n0, .tbl src 0) :: (n1, .tbl src 1) :: (n2, .tbl src 2) :: (n3, .tbl src 3) :: s1.locals }
     | .ok _ _ => .crash
     | .attrErr s1 => .attrErr s1
     | .crash => .crash)
  | _, .newStack n, s =>
    (match n with
     | some n => .normal { cell := some [], locals := (n, .stack) :: s.locals }
     | none => .normal { s with cell := some [] })
  | fuel, .setLast st v, s =>
    (match st.eval funs ctx fuel s with
     | .ok s1 .stack =>
       (match v.eval funs ctx fuel s1 with
        | .ok s2 (.frame src) =>
          (match s2.cell with
           | some (t :: r) => .normal { s2 with cell := some (resolve ctx t src :: r) }
           | _ => .crash)
        | .ok _ _ => .crash
        | .attrErr s2 => .attrErr s2
        | .crash => .crash)
     | .ok _ _ => .crash
     | .attrErr s1 => .attrErr s1
     | .crash => .crash)
  | fuel, .append st v, s =>
    (match st.eval funs ctx fuel s with
     | .ok s1 .stack =>
       (match v.eval funs ctx fuel s1 with
        | .ok s2 (.frame src) =>
          (match s2.cell, src with
           | some l, .fresh => .normal { s2 with cell := some (resolve ctx {} .fresh :: l) }
           | some l, .empty => .normal { s2 with cell := some (resolve ctx {} .empty :: l) }
           | _, _ => .crash)
        | .ok _ _ => .crash
        | .attrErr s2 => .attrErr s2
        | .crash => .crash)
     | .ok _ _ => .crash
     | .attrErr s1 => .attrErr s1
     | .crash => .crash)
  | fuel, .pop st, s =>
    (match st.eval funs ctx fuel s with
     | .ok s1 .stack =>
       (match s1.cell with
        | some (_ :: r) => .normal { s1 with cell := some r }
        | _ => .crash)                     -- IndexError: pop from empty list
     | .ok _ _ => .crash
     | .attrErr s1 => .attrErr s1
     | .crash => .crash)
  | fuel, .tryAttr body handler, s =>
    (match body.run funs ctx fuel s with
     | .attrErr s1 => handler.run funs ctx fuel s1
     | r => r)
  | fuel, .ret e, s =>
    (match e.eval funs ctx fuel s with
     | .ok s1 v => .returned s1 v
     | .attrErr s1 => .attrErr s1
     | .crash => .crash)
  | _, .retNone, s => .returned s .none
  | _, .unknown, _ => .crash
end

/-- what the caller of a translated function sees: the cell afterwards and the value returned
    (`none` = the function crashed, raised, or is outside the fragment) -/
def runStorageFn (funs : List SStmt) (ctx : SCtx) (body : SStmt) (cell : Option (List Memo)) : Option (Option (List Memo) × SVal) :=
  match body.run funs ctx 4 { cell := cell, locals := [] } with
  | .returned s v => some (s.cell, v)
  | .normal s => some (s.cell, .none)
  | _ => none

end JV
