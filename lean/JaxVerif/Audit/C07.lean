import JaxVerif.Properties.C07

#print axioms JV.C07_gensym_fresh
#print axioms JV.C07_gensym_form
#print axioms JV.C07_scope_wellformed
#print axioms JV.C07_once
#print axioms JV.C07_bind_error
#print axioms JV.C07_result_passthrough
#print axioms JV.C07_generated_good
#print axioms JV.C07_same_signature
#print axioms JV.C07_source_wrapper
