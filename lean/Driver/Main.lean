/-
Line-protocol driver: one JSON request per line on stdin, one JSON answer per line on stdout.
Runs the executable model (`JaxVerif/Model/*`) only; imports no Mathlib so that it links.
-/
import Lean.Data.Json
import Driver.Codec
import Driver.Hook
import Driver.Make
import JaxVerif.Model.Config
import JaxVerif.Model.Gensym
import JaxVerif.Model.Struct
import JaxVerif.Model.Sig

open Lean JV

namespace Drv

def pdimJson : PDim → Json
  | .anon => jarr [jstr "anon"]
  | .anonVar => jarr [jstr "anonvar"]
  | .named x b tp => jarr [jstr "named", jstr (String.ofList x), Json.bool b, Json.bool tp]
  | .namedVar x b tp => jarr [jstr "namedvar", jstr (String.ofList x), Json.bool b, Json.bool tp]
  | .fixed k b => jarr [jstr "fixed", jint k, Json.bool b]
  | .sym src b => jarr [jstr "sym", jstr (String.ofList src), Json.bool b]

def cmdParse (j : Json) : Except String Json := do
  let s ← getStr j "s"
  match parseSpec s.toList with
  | none => return Json.mkObj [("r", jstr "VAL")]
  | some (ds, iv) =>
    return Json.mkObj [("r", jstr "ok"), ("dims", jarr (ds.map pdimJson)),
      ("iv", match iv with | none => Json.null | some i => jnat i)]

def parseArgs (j : Json) : Except String Args := do
  match j.getObjVal? "args" with
  | .error _ => return []
  | .ok a => parseArgsObj a

def parseCatch (j : Json) : Catch :=
  match getStr j "catch" with
  | .ok "base" => .baseException
  | _ => .exceptionOnly

def parseTp (j : Json) : TreePath :=
  match j.getObjVal? "tp" with
  | .ok (.arr a) =>
    match a.toList with
    | [i, t] => match i.getNat?, t.getStr? with
      | .ok i, .ok t => some (i, t)
      | _, _ => none
    | _ => none
  | _ => none

/-- a history of array checks inside one context -/
def cmdHist (j : Json) : Except String Json := do
  let catch_ := parseCatch j
  let args ← parseArgs j
  let ops ← getArr j "ops"
  let mut m : Memo := { args := args }
  let mut out : List Json := []
  for op in ops do
    let dimstr ← getStr op "dims"
    let shape ← getNatList op "shape"
    let isInst := getBoolD op "isinst" true
    let dtypeOk := getBoolD op "dtypeok" true
    let flatten := getBoolD op "flatten" false
    let tp := parseTp op
    match parseSpec dimstr.toList with
    | none => out := out ++ [Json.mkObj [("v", jstr "VAL")]]
    | some (ds, iv) =>
      match toShape ds iv with
      | none => out := out ++ [Json.mkObj [("v", jstr "UNMODELLED")]]
      | some sh =>
        let ann : Ann := { dtypes := if dtypeOk then .any else .names [], shape := sh }
        let o : ArrObj := { isInst := isInst, dtype := "x", shape := shape }
        let (v, m') := instancecheck catch_ flatten tp ann o m
        m := m'
        out := out ++ [Json.mkObj [("v", jstr (verdictStr v)), ("memo", memoJson m')]]
  return jarr out

/-- run a program of calls / contexts / checks from an empty thread state -/
def cmdProg (j : Json) : Except String Json := do
  let sk := parseSkel j
  let w := parseWrapSkel j
  let progs ← (← getArr j "prog").mapM parseProg
  let st0 : TState := { disable := getBoolD j "disable" false }
  let (st, obs) := runProgs sk w progs st0
  return Json.mkObj [("obs", jarr (obs.map obsJson)), ("depth", jnat st.stack.length),
    ("flatten", Json.bool st.flatten), ("tp", Json.bool st.tp.isSome), ("disable", Json.bool st.disable)]

def kindOfString (s : String) : Except String PKind :=
  match s with
  | "posonly" => .ok .posOnly | "pos" => .ok .posOrKw | "varpos" => .ok .varPos
  | "kwonly" => .ok .kwOnly | "varkw" => .ok .varKw
  | _ => .error s!"bad parameter kind {s}"

def pieceStr : Piece → String
  | .param p => p.name
  | .slash => "/"
  | .star => "*"
  | .starParam p => "*" ++ p.name
  | .dstarParam p => "**" ++ p.name

/-- the parameter list `_make_fn_with_signature` renders for a signature (+ the output parameter) -/
def cmdRenderSig (j : Json) : Except String Json := do
  let ps ← (← getArr j "params").mapM fun p => do
    return ({ name := ← getStr p "name", kind := ← kindOfString (← getStr p "kind"), hasDefault := getBoolD p "default" false } : SParam)
  let extra : List SParam := match getOpt j "output" with
    | some (.str o) => [{ name := o, kind := .kwOnly, hasDefault := false }]
    | _ => []
  let pieces := renderSig ps extra
  let parsed := parsePieces pieces
  return Json.mkObj [("pieces", jarr (pieces.map fun x => jstr (pieceStr x))),
    ("parsed", jarr (parsed.map fun p => jarr [jstr p.name, jstr (match p.kind with
      | .posOnly => "posonly" | .posOrKw => "pos" | .varPos => "varpos" | .kwOnly => "kwonly" | .varKw => "varkw"), Json.bool p.hasDefault]))]

def skippable (r : Except String Json) : Except String Json :=
  match r with
  | .error e => if e.startsWith "SKIP:" then .ok (Json.mkObj [("skip", jstr (e.drop 5).toString)]) else .error e
  | ok => ok

def dispatch1 (j : Json) : Except String Json := do
  let cmd ← getStr j "cmd"
  match cmd with
  | "prog" => skippable (cmdProg j)
  | "parse" => cmdParse j
  | "hist" => cmdHist j
  | "bcast" => do
      let a ← getNatList j "a"
      let b ← getNatList j "b"
      match bcast a b with
      | none => return Json.null
      | some r => return jarr (r.map jnat)
  | "cfg" => do
      let item ← getStr j "item"
      let v ← j.getObjVal? "val"
      let cv : CfgVal := match v with
        | .bool b => .bool b
        | .str s => .str s.toList
        | _ => .other
      let c0 : Cfg := { disable := getBoolD j "disable0" false, removeTypecheckerStack := getBoolD j "remove0" false }
      match cfgUpdate item.toList cv c0 with
      | none => return jstr "VAL"
      | some c => return Json.mkObj [("disable", Json.bool c.disable), ("remove", Json.bool c.removeTypecheckerStack)]
  | "rendersig" => cmdRenderSig j
  | "gensym" => do
      let fn ← getStr j "fn"
      let ps ← getStrList j "params"
      let (names, scope) := generatedNames fn ps (getBoolD j "output" false)
      return Json.mkObj [("params", jarr (names.map jstr)), ("scope", jarr (scope.map jstr))]
  | "structure" => do
      let x ← parseObj (← j.getObjVal? "x")
      return jstr ("PyTreeDef(" ++ renderDef x.structure ++ ")")
  | "validstruct" => do
      let st ← getStr j "s"
      return Json.bool (validStruct st.toList)
  | "transform" => cmdTransform j
  | "should" => cmdShould j
  | "imports" => cmdImports j
  | "cache" => cmdCache j
  | "getitem" => skippable (cmdGetitem j)
  | "pickle" => skippable (cmdPickle j)
  | "ping" => return jstr "pong"
  | _ => throw s!"unknown cmd {cmd}"

def dispatch (j : Json) : Except String Json := do
  let cmd ← getStr j "cmd"
  if cmd == "batch" then
    let reqs ← getArr j "reqs"
    let rs ← reqs.mapM dispatch1
    return jarr rs
  else dispatch1 j

partial def loop (hin hout : IO.FS.Stream) : IO Unit := do
  let line ← hin.getLine
  if line.isEmpty then return ()
  let ans : Json :=
    match Json.parse line with
    | .error e => Json.mkObj [("error", jstr e)]
    | .ok j => match dispatch j with
      | .ok r => r
      | .error e => Json.mkObj [("error", jstr e)]
  hout.putStrLn ans.compress
  hout.flush
  loop hin hout

end Drv

def main : IO Unit := do
  Drv.loop (← IO.getStdin) (← IO.getStdout)
