/-
A small language for jaxtyping/_config.py: `_maybestr2bool(value, error)` and `_JaxtypingConfig.update(self, item, value)`.
The translator (harness/translate_config.py) turns the current source into `Generated/ConfigCode.lean`;
`Properties/C19.lean` proves that the translated code computes `str2bool` / `cfgUpdate` of the model for every value
and item. `str.lower()` is `lowerStr` (ASCII strings; others are exercised on the implementation only). Core Lean only.
-/
import JaxVerif.Model.Config

namespace JV

inductive CExp
  | value | item
  | lower (e : CExp)
  deriving Repr

inductive CCond
  | isBool                                  -- `isinstance(value, bool)`
  | isStr                                   -- `isinstance(value, str)`
  | inLits (e : CExp) (ls : List String)    -- `e in ("0", "false")`
  | eqLit (e : CExp) (l : String)           -- `e == "jaxtyping_disable"`
  | unknown
  deriving Repr

inductive CStmt
  | skip
  | seq (a b : CStmt)
  | ite (c : CCond) (t e : CStmt)
  | retValue                 -- `return value`
  | retConst (b : Bool)      -- `return True` / `return False`
  | raiseValueError          -- `raise ValueError(...)`
  | message                  -- `msg = "..."`
  | setDisable               -- `self.jaxtyping_disable = _maybestr2bool(value, msg)`
  | setRemove                -- `self.jaxtyping_remove_typechecker_stack = _maybestr2bool(value, msg)`
  | unknown
  deriving Repr

/-- evaluate a string expression; `none` = not a string (AttributeError / TypeError in Python) -/
def CExp.eval (item : List Char) (v : CfgVal) : CExp → Option (List Char)
  | .value => (match v with | .str s => some s | _ => none)
  | .item => some item
  | .lower e => (e.eval item v).map lowerStr

def CCond.eval (item : List Char) (v : CfgVal) : CCond → Option Bool
  | .isBool => some (match v with | .bool _ => true | _ => false)
  | .isStr => some (match v with | .str _ => true | _ => false)
  | .inLits e ls => (e.eval item v).map fun s => ls.any fun l => s = l.toList
  | .eqLit e l => (e.eval item v).map fun s => s = l.toList
  | .unknown => none

inductive CRes (α : Type)
  | normal                  -- fell through
  | ret (a : α)
  | valueError
  | crash
  deriving Repr

/-- `_maybestr2bool` -/
def CStmt.runParse (item : List Char) (v : CfgVal) : CStmt → CRes Bool
  | .skip => .normal
  | .message => .normal
  | .seq a b => (match a.runParse item v with | .normal => b.runParse item v | r => r)
  | .ite c t e =>
    (match c.eval item v with
     | none => .crash
     | some true => t.runParse item v
     | some false => e.runParse item v)
  | .retValue => (match v with | .bool b => .ret b | _ => .crash)     -- returning a non-bool would poison the switch
  | .retConst b => .ret b
  | .raiseValueError => .valueError
  | _ => .crash

/-- what `_maybestr2bool` gives: `some none` = ValueError, `none` = outside the fragment / falls off its end -/
def runParse (code : CStmt) (v : CfgVal) : Option (Option Bool) :=
  match code.runParse [] v with
  | .ret b => some (some b)
  | .valueError => some none
  | _ => none

/-- `update`: the state of the two switches, or ValueError -/
def CStmt.runUpdate (parse : CfgVal → Option (Option Bool)) (item : List Char) (v : CfgVal) : CStmt → Cfg → CRes Cfg
  | .skip, _ => .normal
  | .message, _ => .normal
  | .seq a b, c =>
    (match a.runUpdate parse item v c with
     | .normal => b.runUpdate parse item v c
     | r => r)
  | .ite cnd t e, c =>
    (match cnd.eval item v with
     | none => .crash
     | some true => t.runUpdate parse item v c
     | some false => e.runUpdate parse item v c)
  | .raiseValueError, _ => .valueError
  | .setDisable, c =>
    (match parse v with
     | some (some b) => .ret { c with disable := b }
     | some none => .valueError
     | none => .crash)
  | .setRemove, c =>
    (match parse v with
     | some (some b) => .ret { c with removeTypecheckerStack := b }
     | some none => .valueError
     | none => .crash)
  | _, _ => .crash

/-- an assignment is the last thing `update` does on its path: the method then returns None -/
def runUpdate (parseCode code : CStmt) (item : List Char) (v : CfgVal) (c : Cfg) : Option (Option Cfg) :=
  match code.runUpdate (runParse parseCode) item v c with
  | .ret c' => some (some c')
  | .valueError => some none
  | _ => none

end JV
