import JaxVerif.Model.Bcast
import JaxVerif.Model.Tree
import JaxVerif.Model.Core
import JaxVerif.Model.Parse
