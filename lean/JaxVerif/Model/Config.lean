/-
Model of jaxtyping/_config.py: `_maybestr2bool` and `_JaxtypingConfig.update` (ASCII strings).
-/
namespace JV

inductive CfgVal
  | bool (b : Bool)
  | str (s : List Char)
  | other                      -- any other Python object (int, None, …)
  deriving DecidableEq, Repr

def lowerAscii (c : Char) : Char :=
  if 'A' ≤ c && c ≤ 'Z' then Char.ofNat (c.toNat + 32) else c

def lowerStr (s : List Char) : List Char := s.map lowerAscii

/-- `_maybestr2bool`; `none` = ValueError -/
def str2bool : CfgVal → Option Bool
  | .bool b => some b
  | .str s =>
    let l := lowerStr s
    if l = "0".toList || l = "false".toList then some false
    else if l = "1".toList || l = "true".toList then some true
    else none
  | .other => none

structure Cfg where
  disable : Bool := false
  removeTypecheckerStack : Bool := false
  deriving DecidableEq, Repr

/-- `config.update(item, value)`; `none` = ValueError -/
def cfgUpdate (item : List Char) (v : CfgVal) (c : Cfg) : Option Cfg :=
  if lowerStr item = "jaxtyping_disable".toList then
    (str2bool v).map fun b => { c with disable := b }
  else if lowerStr item = "jaxtyping_remove_typechecker_stack".toList then
    (str2bool v).map fun b => { c with removeTypecheckerStack := b }
  else none

end JV
