/-
A small target language for the translator (harness/extract.py): the branch structure of
`_check_dims` and of the multi-axis part of `_check_shape` is translated from the current Python
source into terms of this language (`Generated/CheckCode.lean`), whose interpreters are given here.
`Properties/C01.lean` proves that the translated code IS the hand-written model (`checkDim`, `vstep`),
so the theorems about the model are theorems about what the source says today. Core Lean only.
-/
import JaxVerif.Model.Core

namespace JV

/-! ### `_check_dims`: one `if / elif / else` chain per axis -/

/-- the tests of the chain -/
inductive DGuard
  | isAnon        -- `cls_dim is _anonymous_dim`
  | bcastOne      -- `cls_dim.broadcastable and obj_size == 1`
  | isFixed       -- `type(cls_dim) is _FixedDim`
  | isSym         -- `type(cls_dim) is _SymbolicDim`
  | isNamed       -- `type(cls_dim) is _NamedDim`
  | otherwise     -- the final `else`
  | unknown       -- not recognised by the translator
  deriving DecidableEq, Repr

/-- the bodies of the chain -/
inductive DAction
  | accept        -- `pass`
  | cmpFixed      -- `if cls_dim.size != obj_size: return <message>`
  | evalCmp       -- two-pass `eval`, NameError -> AnnotationError, `if eval_size != obj_size: return`
  | bindOrCmp     -- (tree-path) name; `single_memo[name]` or bind; `if cls_size != obj_size: return`
  | unknown
  deriving DecidableEq, Repr

def DGuard.holds : DGuard → Dim → Nat → Bool
  | .isAnon, .anon, _ => true
  | .isAnon, _, _ => false
  | .bcastOne, .anon, _ => false       -- the sentinel has no `broadcastable`; never reached in a correct chain
  | .bcastOne, .fixed _ b, n => b && n == 1
  | .bcastOne, .named _ b _, n => b && n == 1
  | .bcastOne, .sym _ b, n => b && n == 1
  | .isFixed, .fixed _ _, _ => true
  | .isFixed, _, _ => false
  | .isSym, .sym _ _, _ => true
  | .isSym, _, _ => false
  | .isNamed, .named _ _ _, _ => true
  | .isNamed, _, _ => false
  | .otherwise, _, _ => true
  | .unknown, _, _ => false

/-- an action applied to an axis of the wrong kind is a Python AttributeError / AssertionError -/
def DAction.run (tp : TreePath) (args : Args) (σ : Single) : DAction → Dim → Nat → Walk Single
  | .accept, _, _ => .ok σ
  | .cmpFixed, .fixed k _, n => if k = (n : Int) then .ok σ else .fail
  | .evalCmp, .sym e _, n =>
    (match e.eval args σ with
     | .ok v => if v = (n : Int) then .ok σ else .fail
     | .fail => .fail
     | .annErr => .annErr
     | .exc x => .exc x σ)
  | .bindOrCmp, .named x _ isTp, n =>
    (match keyOf tp x isTp with
     | .ok key =>
       (match σ.lookup key with
        | none => .ok ((key, n) :: σ)
        | some m => if m = n then .ok σ else .fail)
     | .fail => .fail
     | .annErr => .annErr
     | .exc x => .exc x σ)
  | _, _, _ => .exc .exception σ

/-- the chain: the first test that holds decides -/
def runChain (tp : TreePath) (args : Args) (σ : Single) (d : Dim) (n : Nat) :
    List (DGuard × DAction) → Walk Single
  | [] => .ok σ        -- no branch taken: nothing happens
  | (g, a) :: rest => if g.holds d n then a.run tp args σ d n else runChain tp args σ d n rest

/-! ### the multi-axis part of `_check_shape`: what happens when the name is already bound -/

/-- conditions on `new_shape`, `prev_shape` and their broadcast -/
inductive VCond
  | prevB                 -- `prev_broadcastable`
  | curB                  -- `broadcastable`
  | notCurAndBsNeNew      -- `not broadcastable and broadcast_shape != new_shape`
  | bsNeNew               -- `broadcast_shape != new_shape`
  | bsNePrev              -- `broadcast_shape != prev_shape`
  | notPrevAndBsNePrev    -- `not prev_broadcastable and broadcast_shape != prev_shape`
  | newNePrev             -- `new_shape != prev_shape`
  | neitherB              -- `not (broadcastable or prev_broadcastable)`
  | unknown
  deriving DecidableEq, Repr

/-- statements -/
inductive VStmt
  | ite (c : VCond) (t e : List VStmt)     -- `if c: t else: e`
  | bcast                                  -- `try: broadcast_shape = np.broadcast_shapes(new, prev) except ValueError: return <msg>`
  | failIf (c : VCond)                     -- `if c: return <message>`
  | storeCurBs                             -- `variadic_memo[name] = (broadcastable, broadcast_shape)`
  | accept                                 -- `return ""`
  | unknown

structure VEnv where
  prevB : Bool
  prev : List Nat
  curB : Bool
  new : List Nat
  bs : Option (List Nat) := none      -- `broadcast_shape`, once computed
  stored : Option (Bool × List Nat) := none   -- what has been written to the memo (none = untouched)

def VCond.eval (env : VEnv) : VCond → Option Bool
  | .prevB => some env.prevB
  | .curB => some env.curB
  | .neitherB => some (!(env.curB || env.prevB))
  | .newNePrev => some (env.new != env.prev)
  | .notCurAndBsNeNew => if env.curB then some false else env.bs.map (· != env.new)
  | .bsNeNew => env.bs.map (· != env.new)
  | .bsNePrev => env.bs.map (· != env.prev)
  | .notPrevAndBsNePrev => if env.prevB then some false else env.bs.map (· != env.prev)
  | .unknown => none

/-- outcome of running the statements: `none` = a Python error (unbound local, unknown construct);
    `some none` = the check answers False; `some (some w)` = accepted, `w` = what was written -/
inductive VOut
  | crash
  | reject
  | done (stored : Option (Bool × List Nat))
  | fallthrough (env : VEnv)
  deriving Inhabited

mutual
def runV : Nat → List VStmt → VEnv → VOut
  | 0, _, _ => .crash
  | _ + 1, [], env => .fallthrough env
  | fuel + 1, s :: rest, env =>
    match runStmt fuel s env with
    | .fallthrough env' => runV fuel rest env'
    | o => o
def runStmt : Nat → VStmt → VEnv → VOut
  | 0, _, _ => .crash
  | fuel + 1, .ite c t e, env =>
    (match c.eval env with
     | none => .crash
     | some true => runV fuel t env
     | some false => runV fuel e env)
  | _ + 1, .bcast, env =>
    (match bcast env.new env.prev with
     | none => .reject
     | some j => .fallthrough { env with bs := some j })
  | _ + 1, .failIf c, env =>
    (match c.eval env with
     | none => .crash
     | some true => .reject
     | some false => .fallthrough env)
  | _ + 1, .storeCurBs, env =>
    (match env.bs with
     | none => .crash
     | some j => .fallthrough { env with stored := some (env.curB, j) })
  | _ + 1, .accept, env => .done env.stored
  | _ + 1, .unknown, _ => .crash
end

/-- the value the memo holds for the name afterwards; `none` = rejected (or crashed) -/
def runVariadic (code : List VStmt) (prevB : Bool) (prev : List Nat) (curB : Bool) (new : List Nat) :
    Option (Bool × List Nat) :=
  match runV 64 code { prevB := prevB, prev := prev, curB := curB, new := new } with
  | .done stored => some (stored.getD (prevB, prev))
  | _ => none

/-! ### `__instancecheck_str__`: the order of its stages -/

inductive IStage
  | transparent      -- `if cls._skip_instancecheck: return ""`
  | typeTest         -- `Any`: both `hasattr`s; otherwise `isinstance(obj, cls.array_type)`; else `return <msg>`
  | flattenAccept    -- `if get_treeflatten_memo(): return ""`
  | dtypeName        -- the extraction of the dtype's name into `dtype`
  | dtypeTest        -- `if cls.dtypes is not _any_dtype: ... if not in_dtypes: return <msg>`
  | snapshot         -- `get_shape_memo()` and the four `.copy()` backups
  | walk             -- `try: check = cls._check_shape(...) except <class>: set_shape_memo(<backups>); raise`
  | finish           -- `if check == "": return check else: set_shape_memo(<backups>); return check`
  | unknown
  deriving DecidableEq, Repr

structure IState where
  haveName : Bool := false
  haveSnap : Bool := false
  walked : Option (Walk (Single × Variadic)) := none

/-- run the stages in source order; `none` = a Python error (a name used before it is assigned, an
    unrecognised statement, falling off the end) -/
def runStages (catch_ : Catch) (flatten : Bool) (tp : TreePath) (a : Ann) (o : ArrObj) (m : Memo) :
    List IStage → IState → Option (Verdict × Memo)
  | [], _ => none
  | .transparent :: rest, st => if a.transparent then some (.T, m) else runStages catch_ flatten tp a o m rest st
  | .typeTest :: rest, st => if !o.isInst then some (.F, m) else runStages catch_ flatten tp a o m rest st
  | .flattenAccept :: rest, st => if flatten then some (.T, m) else runStages catch_ flatten tp a o m rest st
  | .dtypeName :: rest, st => runStages catch_ flatten tp a o m rest { st with haveName := true }
  | .dtypeTest :: rest, st =>
    if !st.haveName then none
    else if !a.dtypes.accepts o.dtype then some (.F, m) else runStages catch_ flatten tp a o m rest st
  | .snapshot :: rest, st => runStages catch_ flatten tp a o m rest { st with haveSnap := true }
  | .walk :: rest, st =>
    if !st.haveSnap then none
    else
      match checkShape tp m.args a.shape o.shape m.single m.variadic with
      | .exc e (σ, ν) =>
        some (if catch_.covers e then (.EXC e, m) else (.EXC e, { m with single := σ, variadic := ν }))
      | .annErr => some (.ANN, m)      -- raised inside the `try`: the handler restores and re-raises
      | w => runStages catch_ flatten tp a o m rest { st with walked := some w }
  | .finish :: _, st =>
    (match st.walked with
     | some (.ok (σ, ν)) => some (.T, { m with single := σ, variadic := ν })
     | some .fail => some (.F, m)
     | _ => none)
  | .unknown :: _, _ => none

end JV

namespace JV

/-! ### `_check_shape`: the rank tests and the slices around the multi-axis specifier

The index arithmetic of `_check_shape` (`i = cls.index_variadic`, `j = -(len(cls.dims) - i - 1)`,
`if j == 0: j = None`, `cls.dims[:i]`, `obj.shape[j:]`, `obj.shape[i:j]`, …) is translated into a
`SlicePlan`; Python's slice semantics is `pyBound`. `Properties/C01.lean` proves on every run that
the slices the source takes are the `take` / `drop` the model (`checkShape`, `toShape`) uses. -/

/-- integer expressions over `cls.index_variadic`, `len(cls.dims)`, `len(obj.shape)` -/
inductive IExp
  | iv | lenDims | lenShape
  | lit (k : Int)
  | neg (a : IExp)
  | sub (a b : IExp)
  | add (a b : IExp)
  | unknown
  deriving Repr

def IExp.eval (iv n m : Int) : IExp → Option Int
  | .iv => some iv
  | .lenDims => some n
  | .lenShape => some m
  | .lit k => some k
  | .neg a => (a.eval iv n m).map (- ·)
  | .sub a b => (match a.eval iv n m, b.eval iv n m with | some x, some y => some (x - y) | _, _ => none)
  | .add a b => (match a.eval iv n m, b.eval iv n m with | some x, some y => some (x + y) | _, _ => none)
  | .unknown => none

inductive ICmp | ne | eq | lt | le | gt | ge
  deriving DecidableEq, Repr

def ICmp.holds : ICmp → Int → Int → Bool
  | .ne, x, y => x != y
  | .eq, x, y => x == y
  | .lt, x, y => x < y
  | .le, x, y => x ≤ y
  | .gt, x, y => x > y
  | .ge, x, y => x ≥ y

/-- a slice bound as the source writes it: omitted, the local `i`, or the local `j` -/
inductive Bnd | omitted | i | j | unknown
  deriving DecidableEq, Repr

structure SlicePlan where
  /-- `if <lhs> <op> <rhs>: return <message>` when there is no multi-axis specifier -/
  noVarFail : IExp × ICmp × IExp
  /-- the same test in the branch with a multi-axis specifier -/
  varFail : IExp × ICmp × IExp
  i : IExp
  j : IExp
  /-- `if j == 0: j = None` follows the assignment of `j` -/
  jNoneIfZero : Bool
  /-- the suffix check sits under `if j is not None:` -/
  suffixGuarded : Bool
  prefixDims : Bnd × Bnd
  prefixShape : Bnd × Bnd
  suffixDims : Bnd × Bnd
  suffixShape : Bnd × Bnd
  /-- `obj.shape[i:j]`, where the name is bound for the first time and where it is compared -/
  midFirst : Bnd × Bnd
  midBound : Bnd × Bnd
  /-- `variadic_dim = cls.dims[<index>]` -/
  varIndex : Bnd
  deriving Repr

/-- Python's normalisation of a slice bound `x` for a sequence of length `len` (step 1) -/
def pyBound (len : Nat) (x : Int) : Nat :=
  if x < 0 then (x + len).toNat else min x.toNat len

/-- `l[lo:hi]` with the bounds already normalised -/
def sliceNat {α : Type} (l : List α) (a b : Nat) : List α := (l.drop a).take (b - a)

/-- the normalised `(start, stop)` of a slice of a sequence of length `len`; `j = none` is Python's `None` -/
def boundsOf (len : Nat) (i : Int) (j : Option Int) : Bnd × Bnd → Option (Nat × Nat)
  | (lo, hi) =>
    let one : Bnd → Nat → Option Nat
      | .omitted, dflt => some dflt
      | .i, _ => some (pyBound len i)
      | .j, dflt => some ((j.map (pyBound len)).getD dflt)
      | .unknown, _ => none
    match one lo 0, one hi len with
    | some a, some b => some (a, b)
    | _, _ => none

/-- everything the plan computes for `n = len(cls.dims)`, `m = len(obj.shape)`, `iv = cls.index_variadic` -/
structure SliceVals where
  noVarFail : Bool
  varFail : Bool
  prefixDims : Nat × Nat
  prefixShape : Nat × Nat
  /-- `none` = the suffix check is skipped -/
  suffixDims : Option (Nat × Nat)
  suffixShape : Option (Nat × Nat)
  midFirst : Nat × Nat
  midBound : Nat × Nat
  varIndex : Nat
  deriving DecidableEq, Repr

def SlicePlan.vals (p : SlicePlan) (n m iv : Nat) : Option SliceVals :=
  let ev := IExp.eval iv n m
  let cmp : IExp × ICmp × IExp → Option Bool := fun (a, op, b) =>
    match ev a, ev b with
    | some x, some y => some (op.holds x y)
    | _, _ => none
  match cmp p.noVarFail, cmp p.varFail, ev p.i, ev p.j with
  | some f1, some f2, some i, some j0 =>
    let j : Option Int := if p.jNoneIfZero && j0 == 0 then none else some j0
    -- a suffix check that is not guarded runs with `j = None` too
    let runSuffix := !(p.suffixGuarded && j.isNone)
    match boundsOf n i j p.prefixDims, boundsOf m i j p.prefixShape, boundsOf n i j p.suffixDims,
          boundsOf m i j p.suffixShape, boundsOf m i j p.midFirst, boundsOf m i j p.midBound with
    | some pd, some ps, some sd, some ss, some mf, some mb =>
      (match p.varIndex with
       | .i => if 0 ≤ i then
           some { noVarFail := f1, varFail := f2, prefixDims := pd, prefixShape := ps,
                  suffixDims := if runSuffix then some sd else none,
                  suffixShape := if runSuffix then some ss else none,
                  midFirst := mf, midBound := mb, varIndex := i.toNat }
         else none
       | _ => none)
    | _, _, _, _, _, _ => none
  | _, _, _, _ => none

/-- what the model uses: `pre = dims.take i`, `suf = dims.drop (i + 1)`, `shape.take i`,
    `shape.drop (m - s)`, `(shape.drop i).take (m - i - s)` with `s = n - i - 1` -/
def sliceSpec (n m i : Nat) : SliceVals :=
  let s := n - i - 1
  { noVarFail := m != n, varFail := decide (m < n - 1),
    prefixDims := (0, i), prefixShape := (0, i),
    suffixDims := if s = 0 then none else some (i + 1, n),
    suffixShape := if s = 0 then none else some (m - s, m),
    midFirst := (i, m - s), midBound := (i, m - s), varIndex := i }

end JV
