"""(T1, translation) The bodies of `JaxtypingTransformer.visit_FunctionDef`, `visit_ClassDef` and `visit_Module`
(jaxtyping/_import_hook.py) are translated statement by statement into the language of lean/JaxVerif/Model/HookDsl.lean
(`Generated/HookCode.lean`); Properties/C10.lean proves on every run that running them on any node is `transform` /
`transformModule` of the model. Anything not recognised becomes `.unknown` (a crash in the interpreter)."""
from __future__ import annotations

import ast
import os

from common import GEN, REPO, write_if_changed


def _u(n):
    try:
        return ast.unparse(n)
    except Exception:  # noqa: BLE001
        return "?"


def _strip(stmts):
    return [s for s in stmts if not (isinstance(s, ast.Expr) and isinstance(s.value, ast.Constant)) and not isinstance(s, (ast.Pass, ast.Assert))]


class VisitorTranslator:
    def __init__(self, import_rule):
        self.notes = []
        self.deco_var = None
        self.import_rule = import_rule

    def seq(self, stmts):
        out = [self.stmt(s) for s in _strip(stmts)]
        if not out:
            return ".skip"
        r = out[-1]
        for x in reversed(out[:-1]):
            r = f"(.seq {x} {r})"
        return r

    def stmt(self, st):
        if isinstance(st, ast.Assign) and len(st.targets) == 1 and isinstance(st.targets[0], ast.Name) and _u(st.value) == "self._typechecker.get_ast()":
            self.deco_var = st.targets[0].id
            return ".getDeco"
        if isinstance(st, ast.Assign) and len(st.targets) == 1 and isinstance(st.targets[0], ast.Name) and isinstance(st.value, ast.Name) \
                and self.deco_var and st.value.id == self.deco_var:
            self.deco_var = st.targets[0].id      # `decorator = <the local of an inlined helper>`
            return ".skip"
        if isinstance(st, ast.Expr) and isinstance(st.value, ast.Call):
            src = _u(st.value)
            d = self.deco_var
            if d and src == f"ast.copy_location({d}, node)":
                return ".copyLoc"
            if d and src == f"node.decorator_list.append({d})":
                return ".decoAppend"
            if d and src == f"node.decorator_list.insert(0, {d})":
                return ".decoInsertFront"
            if src == "self._parents.append(node)":
                return ".pushParent"
            if src == "self._parents.pop()":
                return ".popParent"
            if src == "self.generic_visit(node)":
                return ".genericVisit"
        if isinstance(st, ast.Return) and st.value is not None and _u(st.value) == "node":
            return ".retNode"
        if isinstance(st, ast.For) and not st.orelse and _u(st.iter) in ("enumerate(node.body)", "node.body") and self.import_rule == "before-first-non-prologue":
            # the rule was established by running the loop body abstractly on the five kinds of statement it can tell apart
            # (extract.import_rule); the loop must be the only thing that touches `node.body`
            return ".insertImport"
        # the helper-index form of the same rule (extract.import_rule has run the helper's loop abstractly and checked the
        # shape of these two statements): `i = H(node.body)` is nothing yet, the guarded insert is the insertion
        if self.import_rule == "before-first-non-prologue":
            if isinstance(st, ast.Assign) and len(st.targets) == 1 and isinstance(st.targets[0], ast.Name) and isinstance(st.value, ast.Call) \
                    and isinstance(st.value.func, ast.Name) and [_u(a) for a in st.value.args] == ["node.body"] and not st.value.keywords:
                self.index_var = st.targets[0].id
                return ".skip"
            if isinstance(st, ast.If) and getattr(self, "index_var", None) and _u(st.test) == f"{self.index_var} is not None" and not st.orelse and len(st.body) == 1 \
                    and isinstance(st.body[0], ast.Expr) and _u(st.body[0].value).startswith(f"node.body.insert({self.index_var}, "):
                return ".insertImport"
        self.notes.append("statement: " + _u(st)[:100].replace("\n", " "))
        return ".unknown"


class FinderTranslator:
    """`_JaxtypingFinder.should_instrument` / `find_spec` (Model/FinderDsl.lean)"""

    def __init__(self, name_param, loop_var=None):
        self.name_param = name_param
        self.loop_var = loop_var
        self.spec_var = None
        self.loader_alias = set()
        self.loop_body = None
        self.notes = []

    def cond(self, t):
        if isinstance(t, ast.UnaryOp) and isinstance(t.op, ast.Not):
            c = self.cond(t.operand)
            return ".unknown" if c == ".unknown" else f"(.not {c})"
        if isinstance(t, ast.BoolOp):
            parts = [self.cond(v) for v in t.values]
            if ".unknown" in parts:
                return ".unknown"
            op = ".or" if isinstance(t.op, ast.Or) else ".and"
            r = parts[-1]
            for x in reversed(parts[:-1]):
                r = f"({op} {x} {r})"
            return r
        src = _u(t)
        if self.loop_var and src == f"{self.name_param} == {self.loop_var}":
            return ".eqModule"
        if self.loop_var and src == f"{self.name_param}.startswith({self.loop_var} + '.')":
            return ".startsWithDotted"
        if src == f"self.should_instrument({self.name_param})":
            return ".should"
        if self.spec_var and src == f"{self.spec_var} is None":
            return ".specIsNone"
        if self.spec_var and src == f"{self.spec_var} is not None":
            return "(.not .specIsNone)"
        if self.spec_var and isinstance(t, ast.Call) and _u(t.func) == "isinstance" and len(t.args) == 2 and _u(t.args[1]) == "SourceFileLoader" \
                and (_u(t.args[0]) == f"{self.spec_var}.loader" or _u(t.args[0]) in self.loader_alias):
            return ".isSourceLoader"
        self.notes.append("condition: " + src[:100])
        return ".unknown"

    def seq(self, stmts):
        out = [x for x in (self.stmt(s) for s in _strip(stmts)) if x != ".skip"] or [".skip"]
        r = out[-1]
        for x in reversed(out[:-1]):
            r = f"(.seq {x} {r})"
        return r

    def stmt(self, st):
        if isinstance(st, ast.If):
            return f"(.ite {self.cond(st.test)} {self.seq(st.body)} {self.seq(st.orelse)})"
        if isinstance(st, ast.For) and not st.orelse and _u(st.iter) == "self.modules" and isinstance(st.target, ast.Name) and self.loop_body is None:
            self.loop_var = st.target.id
            self.loop_body = self.seq(st.body)
            self.loop_var = None
            return "(.forModules shouldLoopBody)"
        if isinstance(st, ast.Return):
            v = st.value
            if v is None or (isinstance(v, ast.Constant) and v.value is None):
                return ".retNone"
            if isinstance(v, ast.Constant) and v.value is True:
                return "(.retBool true)"
            if isinstance(v, ast.Constant) and v.value is False:
                return "(.retBool false)"
            if self.spec_var and isinstance(v, ast.Name) and v.id == self.spec_var:
                return ".retSpec"
            # `return any(<cond> for module in self.modules)`
            if isinstance(v, ast.Call) and _u(v.func) == "any" and len(v.args) == 1 and isinstance(v.args[0], (ast.GeneratorExp, ast.ListComp)) and self.loop_body is None:
                g = v.args[0]
                if len(g.generators) == 1 and not g.generators[0].ifs and _u(g.generators[0].iter) == "self.modules" and isinstance(g.generators[0].target, ast.Name):
                    self.loop_var = g.generators[0].target.id
                    c = self.cond(g.elt)
                    self.loop_var = None
                    self.loop_body = f"(.ite {c} (.retBool true) .skip)"
                    return "(.seq (.forModules shouldLoopBody) (.retBool false))"
        if isinstance(st, ast.Assign) and len(st.targets) == 1:
            t, v = st.targets[0], st.value
            if isinstance(t, ast.Name) and _u(v) == f"self._original_pathfinder.find_spec({self.name_param}, path, target)":
                self.spec_var = t.id
                return ".findOrig"
            if isinstance(t, ast.Name) and self.spec_var and _u(v) == f"{self.spec_var}.loader":
                self.loader_alias.add(t.id)          # `loader = spec.loader`
                return ".skip"
            if self.spec_var and _u(t) == f"{self.spec_var}.loader" and isinstance(v, ast.Call) and _u(v.func) == "_JaxtypingLoader":
                names = {f"{self.spec_var}.loader"} | self.loader_alias
                ok = len(v.args) == 2 and any(_u(v.args[0]) == n + ".name" for n in names) and any(_u(v.args[1]) == n + ".path" for n in names) \
                    and len(v.keywords) == 1 and v.keywords[0].arg == "typechecker" and _u(v.keywords[0].value) == "self._typechecker"
                if ok:
                    return ".wrapLoader"
        self.notes.append("statement: " + _u(st)[:100].replace("\n", " "))
        return ".unknown"


def translate_finder(tree, notes):
    from inline import inline_helpers

    cls = next((n for n in tree.body if isinstance(n, ast.ClassDef) and n.name == "_JaxtypingFinder"), None)
    should = findspec = loop = ".unknown"
    if cls is None or cls.decorator_list:
        notes.append("_JaxtypingFinder not found / decorated")
        return loop, should, findspec
    si = next((m for m in cls.body if isinstance(m, ast.FunctionDef) and m.name == "should_instrument"), None)
    if si is not None and len(si.args.args) == 2 and not si.decorator_list:
        t = FinderTranslator(si.args.args[1].arg)
        should = t.seq(inline_helpers(si, tree, cls).body)
        loop = t.loop_body or ".unknown"
        notes += ["should_instrument: " + n for n in t.notes]
    else:
        notes.append("should_instrument not found / unexpected parameters")
    fs = next((m for m in cls.body if isinstance(m, ast.FunctionDef) and m.name == "find_spec"), None)
    if fs is not None and [a.arg for a in fs.args.args] == ["self", "fullname", "path", "target"] and not fs.decorator_list:
        t = FinderTranslator("fullname")
        findspec = t.seq(inline_helpers(fs, tree, cls, exclude=("should_instrument",)).body)
        if t.loop_body is not None:
            findspec = ".unknown"
        notes += ["find_spec: " + n for n in t.notes]
    else:
        notes.append("find_spec not found / unexpected parameters")
    return loop, should, findspec


def run(import_rule=None):
    from inline import inline_helpers

    with open(os.path.join(REPO, "jaxtyping", "_import_hook.py")) as fh:
        tree = ast.parse(fh.read())
    cls = next((n for n in tree.body if isinstance(n, ast.ClassDef) and n.name == "JaxtypingTransformer"), None)
    if import_rule is None:
        import extract

        vm = extract.find_def(cls, "visit_Module") if cls is not None else None
        import_rule = extract.import_rule(vm, tree) if vm is not None else "unknown"
    notes = []
    codes = {}
    base = "unknown"
    if cls is not None and len(cls.bases) == 1 and _u(cls.bases[0]) in ("ast.NodeVisitor", "ast.NodeTransformer"):
        base = _u(cls.bases[0])
    for name in ("visit_FunctionDef", "visit_ClassDef", "visit_Module"):
        m = next((x for x in cls.body if isinstance(x, ast.FunctionDef) and x.name == name), None) if cls is not None else None
        if m is None or [a.arg for a in m.args.args] != ["self", "node"] or m.decorator_list or base == "unknown":
            notes.append(f"{name} not found / unexpected parameters / unexpected base class")
            codes[name] = ".unknown"
            continue
        t = VisitorTranslator(import_rule)
        codes[name] = t.seq(inline_helpers(m, tree, cls).body)
        notes += [f"{name}: {n}" for n in t.notes]
    loop, should, findspec = translate_finder(tree, notes)
    note = ("(" + "; ".join(notes)[:400].replace("-/", "- /") + ")") if notes else ""
    txt = f"""/- GENERATED by harness/translate_hook.py from {REPO}/jaxtyping/_import_hook.py on every run. Do not edit. -/
import JaxVerif.Model.HookDsl
import JaxVerif.Model.FinderDsl

namespace JV.Generated

/-- `JaxtypingTransformer.visit_FunctionDef(self, node)` {note} -/
def visitFunctionDefCode : HStmt :=
  {codes['visit_FunctionDef']}
/-- `visit_ClassDef(self, node)` -/
def visitClassDefCode : HStmt :=
  {codes['visit_ClassDef']}
/-- `visit_Module(self, node)` -/
def visitModuleCode : HStmt :=
  {codes['visit_Module']}

/-- `_JaxtypingFinder.should_instrument(self, module_name)`: the body of its loop over `self.modules`, and the method -/
def shouldLoopBody : FStmt :=
  {loop}
def shouldCode : FStmt :=
  {should}
/-- `_JaxtypingFinder.find_spec(self, fullname, path=None, target=None)` -/
def findSpecCode : FStmt :=
  {findspec}

end JV.Generated
"""
    write_if_changed(os.path.join(GEN, "HookCode.lean"), txt)
    return {"hook_notes": notes, "codes": codes, "base": base, "finder": [loop, should, findspec]}


if __name__ == "__main__":
    import json

    print(json.dumps(run(), indent=1))
