/-
C08 — PyTree[L] accepts exactly the trees all of whose leaves match L.
-/
import JaxVerif.Spec.Trees
import JaxVerif.Generated.Skeleton
import JaxVerif.Spec.Calls
import JaxVerif.Lemmas.Trees
import JaxVerif.Source.Trees
import JaxVerif.Lemmas.Treepath

namespace JV

/-- for leaf types that do not involve the context (int, str, None, Any, classes, tuples and
    unions of those) the check of one value is the declarative decision and leaves the state alone -/
theorem C08_memofree_check (sk : Skel) (l : LType) (h : MemoFree l) (x : Obj) (st : CState) :
    checkL sk l x st = (st, if accL l x then .T else .F) :=
  checkL_memofree sk l h x st

/-- **PyTree[L] accepts exactly the trees all of whose leaves match L**, where any subtree that
    itself matches L counts as a leaf and None / empty containers contribute no leaves: for every
    value whose flatteners do not raise, -/
theorem C08_stateless (sk : Skel) (l : LType) (h : MemoFree l) (x : Obj) (hx : x.noFault = true)
    (st : CState) :
    ((checkL sk (.pytree l none) x st).2 = .T ↔ TreeAccepts (fun y => accL l y = true) x) ∧
    ((checkL sk (.pytree l none) x st).2 = .T ∨ (checkL sk (.pytree l none) x st).2 = .F) ∧
    (checkL sk (.pytree l none) x st).1.memo = st.memo :=
  pytree_memofree_iff sk l h x hx st

/-- **PyTree[L] and PyTree[PyTree[L]] accept the same values** -/
theorem C08_nested (sk : Skel) (l : LType) (h : MemoFree l) (x : Obj) (hx : x.noFault = true) (st : CState) :
    (checkL sk (.pytree (.pytree l none) none) x st).2 = (checkL sk (.pytree l none) x st).2 :=
  pytree_nested_same sk l h x hx st

/-- bare `PyTree` accepts everything; a top-level `None` is always accepted -/
theorem C08_bare (sk : Skel) (x : Obj) (st : CState) (l : LType) (s : Option String) :
    checkL sk .barePytree x st = (st, .T) ∧ checkL sk (.pytree l s) .none st = (st, .T) :=
  pytree_bare sk x st l s

/-- **array leaves share bindings with one another and with the context**: with an array
    annotation as the leaf type, the verdict of the PyTree check is the verdict of checking the
    discovered leaves one after the other in the current context (which `C02_seq_iff` shows to be
    "one consistent assignment exists"), and an accepted tree leaves exactly those bindings -/
theorem C08_arrays (sk : Skel) (cls : String) (a : Ann) (ha : a.transparent = false) (x : Obj)
    (hx : x.noFault = true) (hn : x ≠ .none) (st : CState)
    (hst : st.flatten = false ∧ st.tp = none ∧ st.noCtx = false) :
    let leaves := (leavesWith (Obj.isArrOf cls) x).map fun o => (a, o.toArr cls)
    (checkL sk (.pytree (.arr cls a) none) x st).2 = (checkSeq sk.arrayCatch none leaves st.memo).1 ∧
    ((checkSeq sk.arrayCatch none leaves st.memo).1 = .T →
      (checkL sk (.pytree (.arr cls a) none) x st).1.memo = (checkSeq sk.arrayCatch none leaves st.memo).2) :=
  pytree_arrays_seq sk cls a ha x hx hn st hst

/-- a rejected tree binds nothing (instance of C04) -/
theorem C08_reject_binds_nothing (sk : Skel) (l : LType) (s : Option String) (x : Obj) (st : CState)
    (h : (checkL sk (.pytree l s) x st).2 = .F) : (checkL sk (.pytree l s) x st).1.memo = st.memo :=
  pytree_reject_memo sk l s x st h

/-- the source read today asks the is-leaf test at every node of every flattening of the checked object (the
    model's `leavesWith` takes the test as given), releases the flattening flag in a `finally` and re-entrantly -/
theorem C08_generated_good :
    Generated.flattenPassesIsLeaf = true ∧ Generated.flattenInFinally = some true ∧
    Generated.flattenRestores = some true := by decide

/-! non-vacuity -/
private def sk0 : Skel := ⟨.baseException, .baseException, true, true, true, true⟩
-- a tuple that is itself an L counts as a leaf; None and empty containers contribute nothing
example : (checkL sk0 (.pytree (.tuple [.int, .int]) none)
    (.list [.tuple [.int 1, .int 2], .none, .tuple [], .dict ["k"] [.tuple [.int 3, .int 4]]]) {}).2 = .T := by decide
example : (checkL sk0 (.pytree (.tuple [.int, .int]) none) (.list [.tuple [.int 1, .str "x"]]) {}).2 = .F := by decide

/-- **the code as written today is the model's**: `_MetaPyTree.__instancecheck__` and `_check`, translated statement by
    statement from the current source on this run, compute `pytreeInstancecheck` with every structural fact true — for
    every value, every leaf check that hands the flatten-mode flag back as it found it (it may bind, answer False, raise),
    every structure string, every thread state, inside or outside a context; bare `PyTree` answers True and touches
    nothing. -/
theorem C08_source_instancecheck (env : TEnv) (ac : Catch) (hf : FlattenKept env.leafCheck) (st : CState) :
    runInstancecheck env Generated.instancecheckCode Generated.checkCode st =
      some (if env.bare then (st, .T)
            else pytreeInstancecheck (goodSkel ac) env.leafCheck env.leafAny env.S env.x st) :=
  source_tree_instancecheck env ac hf st

/-- `cls.leaftype is Any` -/
def isAnyL : LType → Bool
  | .any => true
  | _ => false

/-- … in particular for every leaf type of the model without a structure name inside: what the translated code computes
    for `isinstance(x, PyTree[l])` / `PyTree[l, S]` is `checkL` of the model, the function `C08_memofree_check`,
    `C08_nested`, `C08_arrays` and `C08_reject_binds_nothing` speak about -/
theorem C08_source_checkL (ac : Catch) (l : LType) (hl : FlagTransparent l) (S : Option String) (x : Obj) (st : CState) :
    runInstancecheck ⟨checkL (goodSkel ac) l, isAnyL l, S, x, false⟩
        Generated.instancecheckCode Generated.checkCode st
      = some (checkL (goodSkel ac) (.pytree l S) x st) := by
  rw [source_tree_instancecheck _ ac
    (fun y s' => (checkL_flagsEq (goodSkel ac) ⟨⟨rfl, rfl⟩, rfl, rfl⟩ l hl y s').2)]
  cases l <;> simp [checkL, isAnyL]

end JV
