/-
C19 — disabling checks makes decorated code behave exactly like plain code.
-/
import JaxVerif.Model.Config
import JaxVerif.Spec.Calls
import JaxVerif.Generated.Skeleton
import JaxVerif.Lemmas.Disable
import JaxVerif.Source.Wrappers
import JaxVerif.Generated.ConfigCode

namespace JV

/-- the switches accept booleans and the strings 0/1/true/false in any (ASCII) case; every other
    string and every other object is rejected with ValueError -/
theorem C19_parse (v : CfgVal) :
    (str2bool v = some true ↔ v = .bool true ∨ ∃ s, v = .str s ∧ (lowerStr s = ['1'] ∨ lowerStr s = ['t', 'r', 'u', 'e'])) ∧
    (str2bool v = some false ↔ v = .bool false ∨ ∃ s, v = .str s ∧ (lowerStr s = ['0'] ∨ lowerStr s = ['f', 'a', 'l', 's', 'e'])) :=
  str2bool_spec v

/-- explicit form of "in any case": a string is accepted iff it has the length of one of the four
    words and agrees with it character by character up to ASCII case -/
theorem C19_any_case (s : List Char) :
    (str2bool (.str s)).isSome = true ↔
      ∃ word ∈ [['0'], ['1'], ['t', 'r', 'u', 'e'], ['f', 'a', 'l', 's', 'e']],
        s.length = word.length ∧ ∀ i (h : i < s.length) (h' : i < word.length), lowerAscii s[i] = word[i] :=
  str2bool_any_case s

/-- an unknown configuration item is rejected; a known one (any case) updates exactly its flag -/
theorem C19_update (item : List Char) (v : CfgVal) (c : Cfg) :
    (lowerStr item ≠ "jaxtyping_disable".toList → lowerStr item ≠ "jaxtyping_remove_typechecker_stack".toList →
        cfgUpdate item v c = none) ∧
    (lowerStr item = "jaxtyping_disable".toList →
        cfgUpdate item v c = (str2bool v).map fun b => { c with disable := b }) :=
  cfgUpdate_spec item v c

/-- **disabled ≡ plain code**: with the flag set — or `no_type_check` on the function or on the
    wrapper — a new-style decorated call is the bare call: same body, same result or exception,
    no context pushed, no binding against the signature beyond Python's own, for every argument
    list, ill-typed ones included -/
theorem C19_disabled_equiv (sk : Skel) (w : WrapSkel) (hw : w.disableTestFirst = true)
    (ps : List Param) (ret : Option (LType × Obj)) (bindOk noTc : Bool) (body : List Prog) (e : Exit)
    (st : TState) (hoff : st.disable = true ∨ noTc = true) :
    runProg sk w (.call .newStyle ps ret bindOk noTc body e) st =
      if bindOk then
        ((runProgs sk w body st).1, [Obs.bodyStart] ++ (runProgs sk w body st).2 ++ [Obs.outcome (exitOutcome e)])
      else (st, [Obs.outcome .bindError]) :=
  disabled_is_bare sk w hw ps ret bindOk noTc body e st hoff

/-- the flag is read at every call: toggling needs no re-decoration -/
theorem C19_toggle (sk : Skel) (w : WrapSkel) (b : Bool) (p : Prog) (st : TState) :
    runProgs sk w [.setDisable b, p] st = runProgs sk w [p] { st with disable := b } :=
  toggle_then_call sk w b p st

/-- the source read today tests the switches before binding and pushing -/
theorem C19_generated_good : Generated.disableTestFirst = some true := by decide

/-- the test matters: evaluated too late, a disabled call still opens a context in which the body's
    own manual checks see fresh bindings instead of the caller's -/
theorem C19_late_test_differs :
    let sk : Skel := ⟨.baseException, .baseException, true, true, true, true⟩
    let good : WrapSkel := ⟨true, true, true, true, true, true, true, true⟩
    let prog : List Prog := [.ctx [.check (.arr "" { dtypes := .any, shape := { pre := [.named "a" false false], var := none } })
                                      (.arr "D" { isInst := true, dtype := "f", shape := [2] }),
                                   .call .newStyle [] none true false [.print] .ret] .ret]
    (runProgs sk good prog { disable := true }).2 ≠
    (runProgs sk { good with disableTestFirst := false } prog { disable := true }).2 := by
  decide

/-! non-vacuity -/
example : str2bool (.str "TrUe".toList) = some true ∧ str2bool (.str "FALSE".toList) = some false ∧
    str2bool (.str "yes".toList) = none ∧ str2bool (.str "".toList) = none ∧ str2bool .other = none := by decide

/-- **the switch as tested today**: with `jaxtyping_disable` set or `__no_type_check__` present, the new-style wrapper
    translated from the current source on this run does nothing but call the function — no bind, no context, no
    typechecker: the thread state is what the body leaves, the observations are the body's. -/
theorem C19_source_disabled (sk : Skel) (ps : List Param) (ret : Option (LType × Obj)) (bindOk noTc rs nw : Bool)
    (B : TState → TState × List Obs) (e : Exit) (st : TState) (h : (st.disable || noTc) = true) :
    runWrapper ⟨sk, ps, ret, bindOk, noTc, B, e, rs, nw, none, .plain, Generated.newImplCode⟩ Generated.newWrapperCode st
      = some (if bindOk then ((B st).1, [.bodyStart] ++ (B st).2 ++ [.outcome (exitOutcome e)])
              else (st, [.outcome .bindError])) := by
  rw [source_new_wrapper]
  cases bindOk <;> simp [callStep, goodWrap, h]

/-- **the switch parser as written today**: `_maybestr2bool`, translated from the current source on this run, computes the
    model's `str2bool` for every value — booleans, every string (ASCII, see Model/Config.lean), every other object; `none` inside
    is ValueError. `C19_parse` and `C19_any_case` are therefore statements about the code the source contains. -/
theorem C19_source_parse (v : CfgVal) : runParse Generated.str2boolCode v = some (str2bool v) := by
  cases v with
  | bool b => simp [runParse, Generated.str2boolCode, CStmt.runParse, CCond.eval, str2bool]
  | other => simp [runParse, Generated.str2boolCode, CStmt.runParse, CCond.eval, str2bool]
  | str s =>
    simp only [runParse, Generated.str2boolCode, CStmt.runParse, CCond.eval, CExp.eval, str2bool, Option.map_some, List.any_cons, List.any_nil, Bool.or_false]
    cases h0 : (decide (lowerStr s = "0".toList) || decide (lowerStr s = "false".toList)) <;>
      cases h1 : (decide (lowerStr s = "1".toList) || decide (lowerStr s = "true".toList)) <;> simp

/-- **`config.update` as written today**: the translated method sets exactly the switch its (case-insensitive) item names
    to what the parser returns, raises ValueError for any other item or value, and touches nothing else — the model's
    `cfgUpdate`. (The class is plain — no base classes — and `config` is its one module-level instance.) -/
theorem C19_source_update (item : List Char) (v : CfgVal) (c : Cfg) :
    runUpdate Generated.str2boolCode Generated.updateCode item v c = some (cfgUpdate item v c) := by
  simp only [runUpdate, Generated.updateCode, cfgUpdate, CStmt.runUpdate, CCond.eval, CExp.eval, Option.map_some, C19_source_parse]
  by_cases hA : lowerStr item = "jaxtyping_disable".toList
  · have dA : decide (lowerStr item = "jaxtyping_disable".toList) = true := decide_eq_true hA
    simp only [dA, if_pos hA]
    cases hs : str2bool v <;> rfl
  · have dA : decide (lowerStr item = "jaxtyping_disable".toList) = false := decide_eq_false hA
    simp only [dA, if_neg hA]
    by_cases hB : lowerStr item = "jaxtyping_remove_typechecker_stack".toList
    · have dB : decide (lowerStr item = "jaxtyping_remove_typechecker_stack".toList) = true := decide_eq_true hB
      simp only [dB, if_pos hB]
      cases hs : str2bool v <;> rfl
    · have dB : decide (lowerStr item = "jaxtyping_remove_typechecker_stack".toList) = false := decide_eq_false hB
      simp only [dB, if_neg hB]

end JV
