/-
C03 — dtype categories accept exactly the documented dtypes, on every backend.
The quantifier is a finite table (every dtype each installed library produces x the 34 exported
categories), regenerated on every run: `Generated.categories` from the current source,
`Generated.backendRows` from the installed libraries. `decide +kernel` over the whole table is
the proof.
-/
import JaxVerif.Spec.Dtype
import JaxVerif.Generated.DtypeTables
import JaxVerif.Generated.Backends

namespace JV

/-- what the code answers for a row and a category (dtype part of the check) -/
def dtypeVerdict (c : String × DtypeSpec) (r : DtypeRow) : Bool :=
  c.2.accepts (extractName Generated.npCanonicalName Generated.duckReprRule r.raw)

/-- **the table**: for every dtype of every library and every exported category the code accepts
    when the documented hierarchy says accept and rejects when it says reject -/
def rowOk (c : String × DtypeSpec) (r : DtypeRow) : Bool :=
  match required c.1 r.canon r.kind with
  | some b => dtypeVerdict c r == b
  | none => true

theorem C03_table :
    ∀ r ∈ Generated.backendRows, ∀ c ∈ Generated.categories, rowOk c r = true := by
  decide +kernel

/-- the source defines exactly the 34 exported categories, and the translator understood all of it -/
theorem C03_categories_complete :
    Generated.categories.map (·.1) = exportedCategories ∧ Generated.dtypeUnknown = [] := by
  decide +kernel

/-- each precision-specific class accepts exactly its one dtype name -/
theorem C03_precision :
    ∀ p ∈ precisionClasses, Generated.categories.lookup p.1 = some (.names [p.2.1]) := by
  decide +kernel

/-- **same verdict whichever library carries the data** — also for dtypes on which the
    documentation is silent -/
theorem C03_backend :
    ∀ r₁ ∈ Generated.backendRows, ∀ r₂ ∈ Generated.backendRows, r₁.canon = r₂.canon →
      ∀ c ∈ Generated.categories, dtypeVerdict c r₁ = dtypeVerdict c r₂ := by
  decide +kernel

private def catNames (n : String) : List String :=
  match Generated.categories.lookup n with
  | some (.names l) => l
  | _ => []

/-- the hierarchy, as identities of accepted sets over *all* dtype names (not only the table):
    Integer = UInt ∪ Int, Inexact = Float ∪ Complex, Real = Float ∪ Integer, Num = Real ∪ Complex -/
theorem C03_hierarchy (d : String) :
    ((catNames "Integer").contains d = ((catNames "UInt").contains d || (catNames "Int").contains d)) ∧
    ((catNames "Inexact").contains d = ((catNames "Float").contains d || (catNames "Complex").contains d)) ∧
    ((catNames "Real").contains d = ((catNames "Float").contains d || (catNames "Integer").contains d)) ∧
    ((catNames "Num").contains d = ((catNames "Real").contains d || (catNames "Complex").contains d)) := by
  have h : ∀ (a b c : List String), (∀ x ∈ a, x ∈ b ++ c) → (∀ x ∈ b ++ c, x ∈ a) →
      a.contains d = (b.contains d || c.contains d) := by
    intro a b c h1 h2
    by_cases hd : d ∈ a
    · have := h1 d hd
      simp only [List.mem_append] at this
      simp [hd, this]
    · have : ¬ (d ∈ b ++ c) := fun h => hd (h2 d h)
      simp only [List.mem_append, not_or] at this
      simp [hd, this.1, this.2]
  refine ⟨h _ _ _ ?_ ?_, h _ _ _ ?_ ?_, h _ _ _ ?_ ?_, h _ _ _ ?_ ?_⟩ <;> decide +kernel

/-- a user-defined category over strings accepts exactly the names it lists, and the
    normalisation of `__init_subclass__` (a single string, or a list) does not change that -/
theorem C03_user (u : UserDtypes) (d : String) :
    u.normalize.accepts d = true ↔ (match u with | .one s => d = s | .many l => d ∈ l) := by
  cases u with
  | one s => simp [UserDtypes.normalize, DtypeSpec.accepts, eq_comm]
  | many l => simp [UserDtypes.normalize, DtypeSpec.accepts]

/-! non-vacuity: the table is not empty and contains the interesting rows -/
example : Generated.backendRows.length > 100 ∧ Generated.categories.length = 34 := by decide +kernel
example : (Generated.backendRows.filter (fun r => r.canon == "int64")).length ≥ 4 := by decide +kernel

end JV
