/-
C09 — PyTree structure names bind, compose, prefix and suffix exactly as documented.
-/
import JaxVerif.Spec.Trees
import JaxVerif.Lemmas.Structs

namespace JV

/-- **bind / compare**: a single identifier binds the structure on first use and afterwards
    accepts exactly equal structures -/
theorem C09_bind (S : String) (d : Def) (pm : List (String × Def)) (h : isIdentStr S = true) :
    (pm.lookup S = none → structStep S d pm = .ok (pm ++ [(S, d)])) ∧
    (∀ prev, pm.lookup S = some prev →
        (prev = d → structStep S d pm = .ok pm) ∧ (prev ≠ d → structStep S d pm = .fail)) :=
  structStep_ident S d pm h

/-- **compose**: the named structure of a composite `"N₁ N₂ … Nₖ"` is the right-nested
    substitution: every leaf of N₁ replaced by N₂ with every leaf replaced by N₃ … -/
theorem C09_compose (pm : List (String × Def)) (names : List String) (defs : List Def)
    (h : names.map (fun n => pm.lookup n) = defs.map some) :
    composeNamed pm names .leaf = .ok (defs.foldr (fun t acc => Def.subst acc t) .leaf) :=
  composeNamed_nested pm names defs h

/-- in particular `"S T"` stands for S with every leaf replaced by T -/
theorem C09_compose_two (pm : List (String × Def)) (s t : String) (S T : Def)
    (hs : pm.lookup s = some S) (ht : pm.lookup t = some T) :
    composeNamed pm [s, t] .leaf = .ok (Def.subst T S) :=
  composeNamed_two pm s t S T hs ht

/-- **prefix** (`"T ..."`): accepted exactly when the tree arises from T by replacing its leaves,
    left to right, by arbitrary subtrees -/
theorem C09_prefix (t d : Def) :
    Def.isPrefix t d = true ↔ ∃ fs, Def.graft t fs = some (d, []) :=
  isPrefix_iff_graft t d

/-- **suffix** (`"... T"`): accepted exactly when the tree is some tree U with every leaf replaced
    by a copy of T (its bottom layer consists of copies of T) -/
theorem C09_suffix (t d : Def) :
    Def.isSuffix t d = true ↔ ∃ u, d = Def.subst t u :=
  isSuffix_iff_subst t d

/-- a composite mentioning a name that is not bound raises AnnotationError (and, by C04, binds nothing) -/
theorem C09_unbound (pm : List (String × Def)) (pre post : List String) (n : String) (acc : Def)
    (hpre : ∀ p ∈ pre, (pm.lookup p).isSome) (hn : pm.lookup n = none) :
    composeNamed pm (pre ++ n :: post) acc = .annErr :=
  composeNamed_unbound pm pre post n acc hpre hn

/-- **validation when the annotation is built**: a structure string is rejected exactly when it
    has no piece, or some piece is neither an identifier nor a `...` standing first or last -/
theorem C09_validate (s : List Char) :
    validStruct s = false ↔
      (splitWs s = [] ∨
       ∃ i p, (splitWs s)[i]? = some p ∧ isIdentifier p = false ∧
         ¬ ((i = 0 ∨ i = (splitWs s).length - 1) ∧ p = ellipsisTok)) :=
  validStruct_false_iff s

/-- in particular: a whitespace-separated sequence of identifiers, optionally preceded or
    followed by `...`, is accepted; an interior `...` or a non-identifier piece is not -/
theorem C09_validate_forms (ids : List (List Char)) (hne : ids ≠ []) (hid : ∀ p ∈ ids, isIdentifier p = true)
    (lead trail : Bool) :
    piecesOk ((if lead then [ellipsisTok] else []) ++ ids ++ (if trail then [ellipsisTok] else [])) 0
      (((if lead then [ellipsisTok] else []) ++ ids ++ (if trail then [ellipsisTok] else [])).length) = true :=
  piecesOk_forms ids hne hid lead trail

/-! non-vacuity -/
example : validStruct "T".toList = true ∧ validStruct "S T".toList = true ∧ validStruct "... T".toList = true ∧
    validStruct "T ...".toList = true ∧ validStruct "".toList = false ∧ validStruct "  ".toList = false ∧
    validStruct "T ... S".toList = false ∧ validStruct "1x".toList = false ∧ validStruct "a.b".toList = false := by decide
example : Def.isSuffix (.node .tuple [.leaf, .leaf]) (.node .list [.node .tuple [.leaf, .leaf], .node .none []]) = true := by decide
example : Def.isPrefix (.node .tuple [.leaf, .leaf]) (.node .tuple [.node .list [], .leaf]) = true := by decide

end JV
