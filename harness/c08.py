"""C08 — PyTree[L] accepts exactly the trees all of whose leaves match L."""
import json

import jax.tree_util as jtu

import gen_dims
import gen_prog
import impl_prog
import progcheck
from common import Rng
from gen_prog import ANY, INT, STR, TUP_II, U_IS, arr_type, arr_val, ival, sval

LEVEL = "proof"
THEOREMS = ["C08_memofree_check", "C08_stateless", "C08_nested", "C08_bare", "C08_arrays", "C08_reject_binds_nothing"]
RULE = (
    "quick: every tree of depth <=2 over tuple/list/dict/None with <=2 children (per leaf value pool) and "
    "seeded random trees of depth <=3 incl. namedtuples and registered nodes, x leaf types {int, str, "
    "tuple[int,int], Union[int,str], Any, a user class, arrays 'a', 'a b', '*v a', '#a'} x 3 prior "
    "contexts; for each: PyTree[L], PyTree[PyTree[L]], bare PyTree, top-level None, bindings after; "
    "every generated tree's structure is also compared with jax.tree_util; non-trivial = the tree has a "
    "container that itself matches L, a None/empty container, or >=2 array leaves; distinct by (tree, L, prior)"
)
TRUSTED = [
    "Lean 4 kernel",
    "jax.tree_util flatten order / None handling / dict key sorting (compared with the model's structure on every generated tree)",
    "the vendored typeguard for the leaf types in scope (modelled by checkL)",
]

P = {"op": "print"}
LEAF_TYPES = [
    ("int", INT, [ival(1), sval("s")]),
    ("str", STR, [sval("s"), ival(2)]),
    ("tuple[int,int]", TUP_II, [{"t": "tuple", "xs": [ival(1), ival(2)]}, ival(3), {"t": "tuple", "xs": [ival(1)]}]),
    ("Union[int,str]", U_IS, [ival(1), sval("s"), {"t": "opaque", "tag": "Z"}]),
    ("Any", ANY, [ival(1), {"t": "opaque", "tag": "A"}]),
    ("UserA", {"t": "user", "accept": ["A"], "faults": {}}, [{"t": "opaque", "tag": "A"}, {"t": "opaque", "tag": "Z"}]),
    ("arr a", arr_type("a"), [arr_val([2]), arr_val([3]), ival(0)]),
    ("arr a b", arr_type("a b"), [arr_val([2, 3]), arr_val([2, 4]), arr_val([2])]),
    ("arr *v a", arr_type("*v a"), [arr_val([5, 2]), arr_val([2]), arr_val([6, 2])]),
    ("arr #a", arr_type("#a", cat="Float"), [arr_val([2]), arr_val([1]), arr_val([2], dtype="int32")]),
]
PRIORS = [[], [{"op": "check", "l": arr_type("a"), "x": arr_val([2])}], [{"op": "check", "l": arr_type("*v q"), "x": arr_val([5, 9])}]]


def py_structure(tree):
    return str(jtu.tree_structure(impl_prog.to_obj(tree)))


def trees_for(rng, leaves, thorough):
    out = []
    for leaf in leaves[:2]:
        out.extend(gen_prog.all_small_trees(leaf, 2 if not thorough else 2))
    seen = set()
    uniq = []
    for t in out:
        k = json.dumps(t, sort_keys=True)
        if k not in seen:
            seen.add(k)
            uniq.append(t)
    if not thorough:
        uniq = rng.sample(uniq, min(len(uniq), 60))
    for _ in range(400 if thorough else 40):
        uniq.append(gen_prog.rand_tree(rng, 3, lambda: rng.choice(leaves)))
    return uniq


def interesting(tree, lt):
    s = json.dumps(tree)
    return '"none"' in s or '"xs": []' in s or s.count('"arr"') >= 2 or (lt["t"] == "tuple" and '"tuple"' in s)


def as_violation(got, want):
    gv, wv = progcheck.verdicts(got), progcheck.verdicts(want)
    if gv != wv:
        k = next(i for i, (a, b) in enumerate(zip(gv, wv)) if a != b)
        return (f"verdict:{wv[k]}->{gv[k]}", f"isinstance(tree, PyTree[...]) answers {gv[k]} but every-leaf-matches semantics require {wv[k]}")
    return ("bindings", f"bindings after the check are {progcheck.last_bindings(got)} but must be {progcheck.last_bindings(want)}")


def run(tier, seed, out, drv, facts):
    rng = Rng(seed, "C08")
    thorough = tier == "thorough"
    for name, lt, leaves in LEAF_TYPES:
        for tree in trees_for(rng, leaves, thorough):
            # the modelled part of jax.tree_util
            w = drv.ask({"cmd": "structure", "x": tree})
            ps = py_structure(tree)
            if w != ps:
                out.model_diff("tree-structure", f"jax.tree_util gives {ps}, the model {w}", {"tree": tree})
            for pi, prior in enumerate(PRIORS):
                if pi and lt["t"] != "arr":
                    continue
                pt = {"t": "pytree", "l": lt, "s": None}
                ptpt = {"t": "pytree", "l": pt, "s": None}
                body = prior + [{"op": "check", "l": pt, "x": tree}, P]
                prog = [{"op": "ctx", "body": body, "exit": "ret"}]
                got, want = progcheck.compare_program(out, drv, facts, prog, "pytree", rng=rng, as_violation=as_violation)
                out.case((name, json.dumps(tree, sort_keys=True), pi), interesting(tree, lt),
                         sample={"leaf_type": name, "tree": tree, "prior": pi, "verdict": progcheck.verdicts(got)[-1:]})
                out.count("verdict_" + progcheck.verdicts(got)[-1])
                # PyTree[L] and PyTree[PyTree[L]] accept the same values, with the same bindings
                prog2 = [{"op": "ctx", "body": prior + [{"op": "check", "l": ptpt, "x": tree}, P], "exit": "ret"}]
                got2, _ = impl_prog.run_program(prog2, "typeguard", rng)
                if progcheck.verdicts(got2)[-1] != progcheck.verdicts(got)[-1] or progcheck.last_bindings(got2) != progcheck.last_bindings(got):
                    out.violation(f"nested:{name}", f"PyTree[L] gives {progcheck.verdicts(got)[-1]} / {progcheck.last_bindings(got)} but PyTree[PyTree[L]] gives {progcheck.verdicts(got2)[-1]} / {progcheck.last_bindings(got2)}",
                                  {"program": prog, "nested_program": prog2})
                # bare PyTree accepts everything; rejected tree binds nothing
                if pi == 0:
                    g3, _ = impl_prog.run_program([{"op": "check", "l": {"t": "bare"}, "x": tree}, {"op": "check", "l": pt, "x": {"t": "none"}}], "typeguard", rng)
                    if progcheck.verdicts(g3) != ["T", "T"]:
                        out.violation("bare-or-none", f"bare PyTree / top-level None gave {progcheck.verdicts(g3)}", {"tree": tree})
                if progcheck.verdicts(got)[-1] == "F":
                    before = [{"op": "ctx", "body": prior + [P], "exit": "ret"}]
                    gb, _ = impl_prog.run_program(before, "typeguard", rng)
                    if progcheck.last_bindings(gb) != progcheck.last_bindings(got):
                        out.violation(f"reject-binds:{name}", f"a rejected tree changed the bindings from {progcheck.last_bindings(gb)} to {progcheck.last_bindings(got)}", {"program": prog})


def replay(rep, out, drv, facts):
    progcheck.compare_program(out, drv, facts, rep["program"], "replay", as_violation=as_violation)
    out.case("replay", True, sample=rep["program"])
