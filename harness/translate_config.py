"""(T1, translation) jaxtyping/_config.py: `_maybestr2bool` and `_JaxtypingConfig.update` are translated into the language
of lean/JaxVerif/Model/ConfigDsl.lean (`Generated/ConfigCode.lean`); Properties/C19.lean proves on every run that the
translated code computes the model's `str2bool` / `cfgUpdate` for every value and item. Anything not recognised becomes
`.unknown` (a crash in the interpreter)."""
from __future__ import annotations

import ast
import os

from common import GEN, REPO, write_if_changed


def _u(n):
    try:
        return ast.unparse(n)
    except Exception:  # noqa: BLE001
        return "?"


def _lean_str(s):
    return '"' + s.replace("\\", "\\\\").replace('"', '\\"') + '"'


class ConfigTranslator:
    def __init__(self, value_name, item_name=None):
        self.value, self.item = value_name, item_name
        self.locals = {}      # local name -> CExp it was bound to (`v = value.lower()`)
        self.notes = []

    def exp(self, e):
        if isinstance(e, ast.Name):
            if e.id == self.value:
                return ".value"
            if self.item and e.id == self.item:
                return ".item"
            if e.id in self.locals:
                return self.locals[e.id]
        if isinstance(e, ast.Call) and isinstance(e.func, ast.Attribute) and e.func.attr == "lower" and not e.args and not e.keywords:
            inner = self.exp(e.func.value)
            if inner:
                return f"(.lower {inner})"
        return None

    def cond(self, t):
        src = _u(t)
        if src == f"isinstance({self.value}, bool)":
            return ".isBool"
        if src == f"isinstance({self.value}, str)":
            return ".isStr"
        if isinstance(t, ast.Compare) and len(t.ops) == 1 and len(t.comparators) == 1:
            left, op, right = t.left, t.ops[0], t.comparators[0]
            le = self.exp(left)
            if le and isinstance(op, ast.In) and isinstance(right, (ast.Tuple, ast.List, ast.Set)) and right.elts \
                    and all(isinstance(x, ast.Constant) and isinstance(x.value, str) for x in right.elts):
                return f"(.inLits {le} [{', '.join(_lean_str(x.value) for x in right.elts)}])"
            if le and isinstance(op, ast.Eq) and isinstance(right, ast.Constant) and isinstance(right.value, str):
                return f"(.eqLit {le} {_lean_str(right.value)})"
        self.notes.append("condition: " + src[:100])
        return ".unknown"

    def seq(self, stmts):
        out = []
        for st in stmts:
            if isinstance(st, ast.Expr) and isinstance(st.value, ast.Constant):
                continue
            out.append(self.stmt(st))
        out = [x for x in out if x != ".skip"] or [".skip"]
        r = out[-1]
        for x in reversed(out[:-1]):
            r = f"(.seq {x} {r})"
        return r

    def stmt(self, st):
        if isinstance(st, ast.If):
            return f"(.ite {self.cond(st.test)} {self.seq(st.body)} {self.seq(st.orelse)})"
        if isinstance(st, ast.Return) and st.value is not None:
            if isinstance(st.value, ast.Name) and st.value.id == self.value:
                return ".retValue"
            if isinstance(st.value, ast.Constant) and st.value.value is True:
                return "(.retConst true)"
            if isinstance(st.value, ast.Constant) and st.value.value is False:
                return "(.retConst false)"
        if isinstance(st, ast.Raise) and isinstance(st.exc, ast.Call) and _u(st.exc.func) == "ValueError" and st.cause is None:
            return ".raiseValueError"
        if isinstance(st, ast.Assign) and len(st.targets) == 1:
            t, v = st.targets[0], st.value
            if isinstance(t, ast.Name):
                e = self.exp(v)
                if e is not None and t.id not in (self.value, self.item):
                    self.locals[t.id] = e
                    return ".skip"
                if isinstance(v, (ast.Constant, ast.JoinedStr)) or (isinstance(v, ast.BinOp) and all(isinstance(x, (ast.Constant, ast.JoinedStr, ast.BinOp, ast.Add)) for x in ast.walk(v) if not isinstance(x, (ast.Load, ast.FormattedValue, ast.Name)))):
                    return ".message"
            if isinstance(t, ast.Attribute) and isinstance(t.value, ast.Name) and t.value.id == "self" and isinstance(v, ast.Call) \
                    and _u(v.func) == "_maybestr2bool" and len(v.args) == 2 and _u(v.args[0]) == self.value and not v.keywords:
                if t.attr == "jaxtyping_disable":
                    return ".setDisable"
                if t.attr == "jaxtyping_remove_typechecker_stack":
                    return ".setRemove"
        self.notes.append("statement: " + _u(st)[:100].replace("\n", " "))
        return ".unknown"


def run():
    with open(os.path.join(REPO, "jaxtyping", "_config.py")) as fh:
        tree = ast.parse(fh.read())
    notes = []
    parse_code = update_code = ".unknown"
    fn = next((n for n in tree.body if isinstance(n, ast.FunctionDef) and n.name == "_maybestr2bool"), None)
    if fn is not None and len(fn.args.args) == 2 and not fn.decorator_list:
        t = ConfigTranslator(fn.args.args[0].arg)
        parse_code = t.seq(fn.body)
        notes += t.notes
    else:
        notes.append("_maybestr2bool not found / unexpected parameters")
    cls = next((n for n in tree.body if isinstance(n, ast.ClassDef) and n.name == "_JaxtypingConfig"), None)
    up = next((m for m in cls.body if isinstance(m, ast.FunctionDef) and m.name == "update"), None) if cls is not None else None
    plain_base = cls is not None and not cls.bases and not cls.keywords and not cls.decorator_list
    if up is not None and [a.arg for a in up.args.args][:1] == ["self"] and len(up.args.args) == 3 and not up.decorator_list and plain_base:
        t = ConfigTranslator(up.args.args[2].arg, up.args.args[1].arg)
        update_code = t.seq(up.body)
        notes += t.notes
    else:
        notes.append("_JaxtypingConfig.update not found / unexpected parameters / the class has bases or decorators")
    # `config` is ONE module-level instance of that class
    inst = [n for n in tree.body if isinstance(n, ast.Assign) and len(n.targets) == 1 and _u(n.targets[0]) == "config" and _u(n.value) == "_JaxtypingConfig()"]
    if len(inst) != 1:
        notes.append("`config = _JaxtypingConfig()` not found exactly once at module level")
        update_code = ".unknown"
    note = ("(" + "; ".join(notes)[:400].replace("-/", "- /") + ")") if notes else ""
    txt = f"""/- GENERATED by harness/translate_config.py from {REPO}/jaxtyping/_config.py on every run. Do not edit. -/
import JaxVerif.Model.ConfigDsl

namespace JV.Generated

/-- `_maybestr2bool(value, error)` {note} -/
def str2boolCode : CStmt :=
  {parse_code}

/-- `_JaxtypingConfig.update(self, item, value)` (a plain class, one module-level instance `config`) -/
def updateCode : CStmt :=
  {update_code}

end JV.Generated
"""
    write_if_changed(os.path.join(GEN, "ConfigCode.lean"), txt)
    return {"config_notes": notes, "parse": parse_code, "update": update_code}


if __name__ == "__main__":
    import json

    print(json.dumps(run(), indent=1))
