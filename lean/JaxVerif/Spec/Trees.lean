/-
Declarative vocabulary for PyTree checks (C08 / C09 / C16).
-/
import JaxVerif.Model.PyTree
import JaxVerif.Model.Struct

namespace JV

mutual
/-- replace the leaves of `t`, left to right, by the subtrees in `fs` (consuming them) -/
def Def.graft : Def → List Def → Option (Def × List Def)
  | .leaf, [] => none
  | .leaf, f :: fs => some (f, fs)
  | .node k cs, fs =>
    match Def.graftList cs fs with
    | some (cs', rest) => some (.node k cs', rest)
    | none => none
def Def.graftList : List Def → List Def → Option (List Def × List Def)
  | [], fs => some ([], fs)
  | c :: cs, fs =>
    match Def.graft c fs with
    | none => none
    | some (c', rest) =>
      match Def.graftList cs rest with
      | none => none
      | some (cs', rest') => some (c' :: cs', rest')
end

/-- leaf types whose check neither reads nor writes the context -/
inductive MemoFree : LType → Prop
  | any : MemoFree .any
  | int : MemoFree .int
  | str : MemoFree .str
  | noneT : MemoFree .noneT
  | user (acc : List String) : MemoFree (.user acc [])
  | tuple (ts : List LType) : (∀ t ∈ ts, MemoFree t) → MemoFree (.tuple ts)
  | union (ts : List LType) : (∀ t ∈ ts, MemoFree t) → MemoFree (.union ts)

mutual
/-- no custom flattener inside the value raises -/
def Obj.noFault : Obj → Bool
  | .custom _ fault xs => fault.isNone && Obj.noFaultList xs
  | .tuple xs => Obj.noFaultList xs
  | .list xs => Obj.noFaultList xs
  | .dict _ vs => Obj.noFaultList vs
  | .ntuple _ xs => Obj.noFaultList xs
  | _ => true
def Obj.noFaultList : List Obj → Bool
  | [] => true
  | x :: xs => x.noFault && Obj.noFaultList xs
end

/-- children of a value that `jax.tree_util` treats as a node; `none` = a leaf -/
def Obj.children? : Obj → Option (List Obj)
  | .tuple xs => some xs
  | .list xs => some xs
  | .dict _ vs => some vs
  | .ntuple _ xs => some xs
  | .custom _ _ xs => some xs
  | .none => some []
  | _ => Option.none

/-- `PyTree[L]` accepts `x`, declaratively: `x` itself matches `L`, or `x` is a node all of whose
    children are accepted (None and empty containers: vacuously) -/
inductive TreeAccepts (acc : Obj → Prop) : Obj → Prop
  | leaf (x : Obj) : acc x → TreeAccepts acc x
  | node (x : Obj) (cs : List Obj) : x.children? = some cs → (∀ c ∈ cs, TreeAccepts acc c) → TreeAccepts acc x

end JV
