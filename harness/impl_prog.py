"""Interpreter of the JSON program language (checks, print_bindings, decorated calls, context
blocks) on the real jaxtyping; produces the same observation stream as the Lean model's
`runProgs` (Driver `prog` command)."""
from __future__ import annotations

import collections
import re
import typing

import impl
from impl import Duck, UserBaseExc, UserExc, RaisingFormat, parse_bindings, canon_bindings, bindings

import numpy as np
import jax.tree_util as jtu
import jaxtyping
from jaxtyping import AnnotationError, PyTree, TypeCheckError, jaxtyped

import typeguard
import beartype
import beartype.roar


class Duck2(Duck):
    pass


class DuckB:
    def __init__(self, shape, dtype="float32"):
        self.shape = tuple(shape)
        self.dtype = dtype


_opaque_classes = {}
_nt_classes = {}
_custom_classes = {}
_user_classes = {}


def opaque_cls(tag):
    if tag not in _opaque_classes:
        _opaque_classes[tag] = type("Opaque_" + re.sub(r"\W", "_", tag), (), {"_tag": tag, "__repr__": lambda s: f"<{tag}>"})
    return _opaque_classes[tag]


def nt_cls(tag, n):
    key = (tag, n)
    if key not in _nt_classes:
        _nt_classes[key] = collections.namedtuple(tag, [f"f{i}" for i in range(n)])
    return _nt_classes[key]


def custom_cls(tag):
    if tag not in _custom_classes:

        class C:
            def __init__(self, xs, fault=None):
                self.xs = tuple(xs)
                self.fault = fault

            def __repr__(self):
                return f"{tag}{self.xs}"

        C.__name__ = C.__qualname__ = tag

        def flatten(c):
            if c.fault is not None:
                raise c.fault("raised by a user flatten function")
            return c.xs, None

        jtu.register_pytree_node(C, flatten, lambda aux, xs: C(xs))
        _custom_classes[tag] = C
    return _custom_classes[tag]


def exc_cls(s):
    return {"EXC": UserExc, "BASEEXC": UserBaseExc}[s]


def user_cls(accept, faults):
    key = (tuple(accept), tuple(sorted(faults.items())))
    if key not in _user_classes:

        class Meta(type):
            def __instancecheck__(cls, x):
                tag = getattr(type(x), "_tag", None)
                if tag in faults:
                    raise exc_cls(faults[tag])("raised by a user __instancecheck__")
                return tag in accept

        _user_classes[key] = Meta("User_" + "_".join(accept), (), {})
    return _user_classes[key]


ARRAY_CLASSES = {"Duck": Duck, "Duck2": Duck2, "DuckB": DuckB, "np": np.ndarray, "": typing.Any}


def to_obj(j, rng=None):
    t = j["t"]
    if t == "int":
        return j["v"]
    if t == "str":
        return j["v"]
    if t == "none":
        return None
    if t == "opaque":
        tag = j["tag"]
        if tag == "raises:exception":
            return RaisingFormat(UserExc)
        if tag == "raises:base":
            return RaisingFormat(UserBaseExc)
        return opaque_cls(tag)()
    if t == "arr":
        cls = j["cls"]
        if cls == "np":
            return np.zeros(tuple(j["shape"]), dtype=j.get("dtype", "float32"))
        return ARRAY_CLASSES[cls](tuple(j["shape"]), j.get("dtype", "float32"))
    if t == "tuple":
        return tuple(to_obj(x, rng) for x in j["xs"])
    if t == "list":
        return [to_obj(x, rng) for x in j["xs"]]
    if t == "dict":
        items = list(zip(j["keys"], [to_obj(x, rng) for x in j["vals"]]))
        if rng is not None:
            items = rng.shuffle(items)  # insertion order must not matter
        else:
            items = items[::-1]
        return dict(items)
    if t == "ntuple":
        xs = [to_obj(x, rng) for x in j["xs"]]
        return nt_cls(j["tag"], len(xs))(*xs)
    if t == "custom":
        fault = j.get("fault")
        return custom_cls(j["tag"])([to_obj(x, rng) for x in j["xs"]], exc_cls(fault) if fault else None)
    raise ValueError(t)


def to_type(j):
    t = j["t"]
    if t == "any":
        return typing.Any
    if t == "int":
        return int
    if t == "str":
        return str
    if t == "none":
        return type(None)
    if t == "bare":
        return PyTree
    if t == "user":
        return user_cls(j["accept"], j.get("faults") or {})
    if t == "arr":
        cat = getattr(jaxtyping, j.get("cat", "Shaped"))
        if j.get("split") is not None:
            # the same axes written as a NESTED annotation: the first `split` axes on the outside, the rest inside
            toks = j["dims"].split()
            k = j["split"]
            return cat[cat[ARRAY_CLASSES[j.get("cls", "")], " ".join(toks[k:])], " ".join(toks[:k])]
        return cat[ARRAY_CLASSES[j.get("cls", "")], j["dims"]]
    if t == "tuple":
        return tuple[tuple(to_type(x) for x in j["ts"])] if j["ts"] else tuple[()]
    if t == "union":
        return typing.Union[tuple(to_type(x) for x in j["ts"])]
    if t == "pytree":
        if j.get("s") is None:
            return PyTree[to_type(j["l"])]
        return PyTree[to_type(j["l"]), j["s"]]
    raise ValueError(t)


def memo_canon_from_model(m):
    if m is None:
        return {"single": [], "variadic": [], "struct": []}
    return {
        "single": sorted([k, v] for k, v in m["single"]),
        "variadic": sorted([k, list(s)] for k, _b, s in m["variadic"]),
        "struct": sorted([k, v] for k, v in m["struct"]),
    }


def canon_model_obs(obs):
    out = []
    for o in obs:
        if o["o"] in ("bindings", "tcebindings"):
            out.append({"o": o["o"], "m": memo_canon_from_model(o["m"])})
        else:
            out.append(o)
    return out


TCE_STAGE_PARAMS = "whilst checking the parameters of"
TCE_STAGE_RETURN = "whilst checking the return value of"


def parse_tce(e):
    msg = str(e)
    if TCE_STAGE_PARAMS in msg:
        m = re.search(r"The problem arose whilst typechecking parameter '([^']*)'", msg)
        stage = "tceParams"
        blame = m.group(1) if m else None
    elif TCE_STAGE_RETURN in msg:
        stage, blame = "tceReturn", None
    else:
        stage, blame = "tce?", None
    tail = msg.split("Parameter annotations:", 1)[-1]
    tail = tail.split("\n", 1)[1] if "\n" in tail else ""
    b = canon_bindings(parse_bindings(tail))
    return stage, blame, b


def manual_check(x, ty):
    """a manual check of `x` against `ty` in the current context: `isinstance` for classes
    (jaxtyping annotations included), typeguard's `check_type` for typing constructs"""
    if isinstance(ty, type) and not hasattr(ty, "__origin__") and ty is not typing.Any:
        return impl.check_once(x, ty)
    from jaxtyping._typeguard import check_type

    try:
        check_type("x", x, ty)
        return "T"
    except TypeError as e:
        return "TCE" if isinstance(e, TypeCheckError) else "F"
    except BaseException as e:  # noqa: BLE001
        if isinstance(e, (SystemExit, MemoryError)):
            raise
        return impl.classify_exc(e)


CHECKERS = {
    "typeguard": typeguard.typechecked,
    "beartype": beartype.beartype,
}


class Interp:
    def __init__(self, checker="typeguard", rng=None):
        self.tc = CHECKERS[checker]
        self.checker = checker
        self.obs = []
        self.rng = rng
        self.fn_meta = []
        self.frame_checks = []  # (statement kind, caller bindings before, after, depth before, after)

    def _snap(self):
        from jaxtyping import _storage

        depth = stack_depth()
        return canon_bindings(bindings()), depth

    def run(self, progs):
        for p in progs:
            self.stmt(p)
        return self.obs

    def stmt(self, p):
        op = p["op"]
        if op == "check":
            ty = to_type(p["l"])
            x = to_obj(p["x"], self.rng)
            self.obs.append({"o": "verdict", "v": manual_check(x, ty)})
        elif op == "print":
            self.obs.append({"o": "bindings", "m": canon_bindings(bindings())})
        elif op == "disable":
            jaxtyping.config.update("jaxtyping_disable", p.get("v", True))
        elif op == "ctx":
            before = self._snap()
            try:
                with jaxtyped("context"):
                    for q in p["body"]:
                        self.stmt(q)
                    ex = p.get("exit", "ret")
                    if ex == "exc":
                        raise UserExc("body")
                    if ex == "base":
                        raise UserBaseExc("body")
                self.obs.append({"o": "outcome", "v": "returned"})
            except UserExc:
                self.obs.append({"o": "outcome", "v": "exc"})
            except UserBaseExc:
                self.obs.append({"o": "outcome", "v": "baseexc"})
            except (SystemExit, MemoryError, KeyboardInterrupt):
                raise
            except BaseException as e:  # noqa: BLE001
                # the library's own bookkeeping failed (e.g. `pop from empty list` when leaving the block): an observation
                self.obs.append({"o": "outcome", "v": "internal:" + type(e).__name__})
            self.frame_checks.append(("ctx", before, self._snap(), p))
        elif op == "call":
            bare = bool(jaxtyping.config.jaxtyping_disable or p.get("notc")) and p.get("kind", "new") == "new"
            before = self._snap()
            self.call(p)
            if not bare:
                self.frame_checks.append(("call:" + p.get("kind", "new"), before, self._snap(), p))
        else:
            raise ValueError(op)

    def call(self, p):
        params = p["params"]
        names = [q["name"] for q in params]
        anns = {q["name"]: to_type(q["ty"]) for q in params}
        vals = {q["name"]: to_obj(q["val"], self.rng) for q in params}
        ret = p.get("ret")
        retval = to_obj(ret["val"], self.rng) if ret else None
        if ret:
            anns["return"] = to_type(ret["ty"])
        exit_ = p.get("exit", "ret")
        interp = self

        def body():
            interp.obs.append({"o": "body"})
            for q in p["body"]:
                interp.stmt(q)
            if exit_ == "exc":
                raise UserExc("body")
            if exit_ == "base":
                raise UserBaseExc("body")
            return retval

        scope = {"_body": body}
        src = f"def fn({', '.join(names)}):\n    return _body()"
        exec(src, scope)
        fn = scope["fn"]
        fn.__annotations__ = dict(anns)
        kind = p.get("kind", "new")
        if p.get("notc") and p.get("notc_pos", "below") == "below":
            fn = typing.no_type_check(fn)
        if kind == "new":
            wrapped = jaxtyped(typechecker=self.tc)(fn)
        elif kind == "old":
            wrapped = jaxtyped(self.tc(fn))
        else:
            wrapped = jaxtyped(typechecker=None)(fn)
        if p.get("notc") and p.get("notc_pos", "below") == "above":
            wrapped = typing.no_type_check(wrapped)
        kwargs = dict(vals)
        if not p.get("bindok", True):
            kwargs["__unexpected_kwarg__"] = 1
        # positional / keyword split
        npos = p.get("npos", 0)
        args = [kwargs.pop(n) for n in names[:npos]]
        try:
            wrapped(*args, **kwargs)
            self.obs.append({"o": "outcome", "v": "returned"})
        except TypeCheckError as e:
            stage, blame, b = parse_tce(e)
            self.obs.append({"o": "tcebindings", "m": b})
            rec = {"o": "outcome", "v": stage}
            if stage == "tceParams":
                rec["blame"] = blame
            self.obs.append(rec)
            self.last_exc = e
        except AnnotationError:
            self.obs.append({"o": "outcome", "v": "ann"})
        except UserExc:
            self.obs.append({"o": "outcome", "v": "exc"})
        except UserBaseExc:
            self.obs.append({"o": "outcome", "v": "baseexc"})
        except TypeError as e:
            if not p.get("bindok", True) and "__unexpected_kwarg__" in str(e):
                self.obs.append({"o": "outcome", "v": "bindError"})
            else:
                self.obs.append({"o": "outcome", "v": "checkerError"})
        except beartype.roar.BeartypeCallHintViolation:
            self.obs.append({"o": "outcome", "v": "checkerError"})
        except Exception:  # noqa: BLE001 - e.g. ZeroDivisionError out of a symbolic axis
            self.obs.append({"o": "outcome", "v": "exc"})
        except BaseException as e:  # noqa: BLE001
            if isinstance(e, (SystemExit, MemoryError, KeyboardInterrupt)):
                raise
            self.obs.append({"o": "outcome", "v": "baseexc"})


def run_program(progs, checker="typeguard", rng=None, reset=True):
    """Runs from a clean thread state; returns (obs, residual) where residual describes the
    thread state left behind (must be clean). reset=False leaves that state in place so that the
    caller can probe it."""
    jaxtyping.config.update("jaxtyping_disable", False)
    it = Interp(checker, rng)
    try:
        obs = it.run(progs)
    finally:
        jaxtyping.config.update("jaxtyping_disable", False)
    run_program.last_frame_checks = it.frame_checks
    return obs, residual_state(reset=reset)


def stack_depth():
    """number of open binding contexts of the calling thread. Reads the private stack where it is today; when the
    representation differs, looks for the stack in any module-level thread-local / context variable, and as a last
    resort answers 0 / 1 from the module's own emptiness test"""
    import contextvars
    import threading

    from jaxtyping import _storage

    st = getattr(_storage, "_shape_storage", None)
    if st is not None and not isinstance(st, contextvars.ContextVar):
        return len(getattr(st, "memo_stack", []) or [])
    for v in vars(_storage).values():
        if isinstance(v, contextvars.ContextVar):
            cur = v.get(None)
            if isinstance(cur, list):
                return len(cur)
        elif isinstance(v, threading.local):
            for a in vars(v).values():
                if isinstance(a, list) and all(isinstance(x, tuple) and len(x) == 4 for x in a):
                    return len(a)
    try:
        return 1 if _storage._has_shape_memo() else 0
    except Exception:  # noqa: BLE001
        return -1


def drain_stack():
    from jaxtyping import _storage

    for _ in range(64):
        try:
            if not _storage._has_shape_memo():
                return
            _storage.pop_shape_memo()
        except Exception:  # noqa: BLE001
            return


def residual_state(reset=True):
    """What the thread-local storage holds now (public probes first, then a peek)."""
    from jaxtyping import _storage

    depth = stack_depth()
    try:
        flatten = bool(_storage.get_treeflatten_memo())
    except Exception:
        flatten = None
    tp = getattr(getattr(_storage, "_treepath_storage", None), "value", None) is not None
    res = {"depth": depth, "flatten": flatten, "tp": tp}
    if reset:
        # never let one case contaminate the next
        if depth and depth > 0:
            drain_stack()
        try:
            _storage.clear_treeflatten_memo()
            _storage.clear_treepath_memo()
        except Exception:
            pass
    return res


def probe_clean():
    """Public probes of C12: a wrong-dtype array is rejected, '?' outside a PyTree raises
    AnnotationError, print_bindings() at top level prints nothing."""
    ok = {}
    ok["wrong_dtype_rejected"] = impl.check_once(Duck((2,), "int32"), jaxtyping.Float[Duck, "2"]) == "F"
    ok["wrong_shape_rejected"] = impl.check_once(Duck((3,), "float32"), jaxtyping.Float[Duck, "2"]) == "F"
    ok["qmark_outside_raises"] = impl.check_once(Duck((2,), "float32"), jaxtyping.Float[Duck, "?q"]) == "ANN"
    b = canon_bindings(bindings())
    ok["toplevel_prints_nothing"] = b == {"single": [], "variadic": [], "struct": []}
    return ok
