"""C04 — a failed or raising check binds nothing; a passing check is idempotent.

Direct property evaluation on the implementation (no model needed): for every generated
(context state, annotation, value): bindings after a non-True check == bindings before; a True
check repeated is True again and changes nothing. Plus correspondence with the Lean model.
"""
from __future__ import annotations

import json

import extract
import gen_dims
import gen_prog
import impl_prog
from common import Rng
from gen_prog import arr_type, arr_val

LEVEL = "proof"
THEOREMS = ["C04_source_storage", 
    "C04_array_fail_restores",
    "C04_array_exc_restores",
    "C04_array_restores_all",
    "C04_generated_catch",
    "C04_exception_only_leaks",
    "C04_array_idempotent",
    "C04_seq_idempotent",
    "C04_pytree_idempotent",
    "C04_pytree_fail_restores",
    "C04_check_restores",
    "C04_source_pytree_rollback",
]
RULE = (
    "cases = (prior accepted checks, target check) inside one context; the target is an array or "
    "PyTree check whose mismatch is planted at every axis index (prefix / variadic / suffix) or every "
    "leaf index, or which raises (unbound symbolic name, unbound structure name, user code raising "
    "Exception / BaseException from an {arg} hole, a custom flattener, a leaf __instancecheck__); "
    "observed: print_bindings() before/after, the verdict, and the same check repeated; non-trivial = "
    "the target reached the shape walk / leaf loop after at least one tentative binding; distinct by "
    "(prior, annotation, value)"
)
TRUSTED = [
    "harness/translate_storage.py (recognisers of the statements of get/set/push/pop_shape_memo and their helpers) and the interpreter Model/StorageDsl.lean (one list object per thread cell; list end = head of the model's list)",
    "Lean 4 kernel",
    "harness/extract.py: recognition of the try/except around _check_shape and PyTree._check",
    "print_bindings() shows every binding (axes, variadics, structures) of the current context",
    "harness/translate_tree.py (recognisers of the statements of _MetaPyTree.__instancecheck__ / _check) and the interpreter Model/TreeDsl.lean (flatten and the structure block are primitives)",
]

P = {"op": "print"}


def planted_array_cases(rng, n_random, thorough):
    """(prior, target-type, target-value, args)"""
    cases = []
    alpha = {"a": 2, "b": 3, "c": 4}
    specs = [
        "a b c", "a *v b", "*v a b", "a b *v", "a #b c", "a b a+b", "a *#v c", "b a 7", "_ a b", "a ... c",
        "a b b-a", "#a #b #c", "a dim=b c", "7 a a", "_ a b a", "... a a", "n=3 a a+1", "2 a *v a",
    ]
    if thorough:
        specs += [gen_dims.rand_dims(rng, 5, holes=()) for _ in range(200)]
    for dims in specs:
        valpha = {"v": [5, 6], "w": [2]}
        good = gen_dims.rand_shape_for(rng, dims, alpha, valpha, mutate=False)
        for i in range(len(good)):
            for delta in (1, 7):
                bad = list(good)
                bad[i] = bad[i] + delta
                for prior in ([], [("x y", [9, 8])], [("a", [2])], [("*v", [5, 6])]):
                    cases.append((prior, arr_type(dims), arr_val(bad), {}))
                # the same axes as a nested annotation, split at every position
                for k in range(1, len(dims.split())):
                    cases.append(([], gen_prog.nested(arr_type(dims), k), arr_val(bad), {}))
        cases.append(([], arr_type(dims), arr_val(good), {}))
        cases.append(([], arr_type(dims), arr_val(good + [1]), {}))
        # the WHOLE shape fits and only the dtype (or the array class) is wrong: the names of the annotation stay unbound
        for prior in ([], [("x y", [9, 8])], [("*#v", [1, 6])]):
            cases.append((prior, arr_type(dims, cat="Int"), arr_val(good, dtype="float32"), {}))
            cases.append((prior, arr_type(dims, cat="Float"), arr_val(good, dtype="int32"), {}))
            cases.append((prior, arr_type(dims, cls="Duck2", cat="Float"), arr_val(good), {}))
    # raising targets: something is bound first, then the walk raises
    for pre in ("a", "a b", "*v a", "a *v"):
        cases.append(([], arr_type(pre + " q+1"), arr_val([2, 3, 4, 5][: len(pre.split()) + 1]), {}))
        for cls in ("raises:exception", "raises:base"):
            cases.append(([], arr_type(pre + " {p}"), arr_val([2, 3, 4, 5][: len(pre.split()) + 1]), {"p": cls}))
            cases.append(([("c", [4])], arr_type(pre + " {p}+1"), arr_val([2, 3, 4, 5][: len(pre.split()) + 1]), {"p": cls}))
        cases.append(([], arr_type(pre + " 1//(a-a)"), arr_val([2, 3, 4, 5][: len(pre.split()) + 1]), {}))
    for _ in range(n_random):
        ops, holes = gen_dims.rand_history(rng, rng.rng(1, 4), max_axes=4, holes={})
        prior = [(o["dims"], o["shape"]) for o in ops[:-1]]
        cases.append((prior, arr_type(ops[-1]["dims"]), arr_val(ops[-1]["shape"]), {}))
    return cases


def pytree_cases(rng, n_random, thorough):
    cases = []
    leaf_t = arr_type("a b")
    for nleaves in (1, 2, 3, 4):
        for bad_at in range(nleaves):
            for sname in (None, "T"):
                leaves = [arr_val([2, 3]) for _ in range(nleaves)]
                leaves[bad_at] = arr_val([2, 4])
                tree = {"t": "tuple", "xs": [leaves[0], {"t": "list", "xs": leaves[1:]}]}
                cases.append(([], {"t": "pytree", "l": leaf_t, "s": sname}, tree, {}))
                cases.append(([("a", [2])], {"t": "pytree", "l": leaf_t, "s": sname}, tree, {}))
    good = {"t": "tuple", "xs": [arr_val([2, 3]), arr_val([2, 3])]}
    cases.append(([], {"t": "pytree", "l": leaf_t, "s": "T"}, good, {}))
    # unbound structure name in a composite
    cases.append(([], {"t": "pytree", "l": leaf_t, "s": "T S"}, good, {}))
    cases.append(([], {"t": "pytree", "l": leaf_t, "s": "... S"}, good, {}))
    # user code raising inside the check, after a leaf matched
    for cls in ("EXC", "BASEEXC"):
        u = {"t": "union", "ts": [leaf_t, {"t": "user", "accept": ["A"], "faults": {"B": cls}}]}
        tree = {"t": "tuple", "xs": [arr_val([2, 3]), {"t": "opaque", "tag": "B"}]}
        cases.append(([], {"t": "pytree", "l": u, "s": "T"}, tree, {}))
        tree2 = {"t": "tuple", "xs": [arr_val([2, 3]), {"t": "custom", "tag": "CN", "fault": cls, "xs": []}]}
        cases.append(([], {"t": "pytree", "l": leaf_t, "s": None}, tree2, {}))
        # a leaf whose full check raises (hole) after the first leaf bound `a`
        lt = arr_type("a {p}")
        tree3 = {"t": "tuple", "xs": [arr_val([2, 3]), arr_val([2, 3])]}
        cases.append(([], {"t": "pytree", "l": lt, "s": "T"}, tree3, {"p": "raises:base" if cls == "BASEEXC" else "raises:exception"}))
    # an EXISTING binding that an earlier leaf rewrites (a broadcastable multi-axis name widened from (1,3) to (2,3))
    # before a later leaf fails or raises: the old value must come back, not just the new names go away
    wide_t = arr_type("*#v a")
    for prior_v in ([1, 3], [3], [1, 1], []):
        for sname in (None, "T"):
            prior = [("*#v", prior_v), ("a", [5])]
            tree = {"t": "tuple", "xs": [arr_val([2, 3, 5]), arr_val([2, 3, 6])]}
            cases.append((prior, {"t": "pytree", "l": wide_t, "s": sname}, tree, {}))
            cases.append((prior, {"t": "pytree", "l": wide_t, "s": sname}, {"t": "list", "xs": [arr_val([2, 3, 5]), arr_val([4, 3, 5]), arr_val([2, 3, 5])]}, {}))
            for cls in ("EXC", "BASEEXC"):
                u = {"t": "union", "ts": [wide_t, {"t": "user", "accept": ["A"], "faults": {"B": cls}}]}
                cases.append((prior, {"t": "pytree", "l": u, "s": sname}, {"t": "tuple", "xs": [arr_val([2, 3, 5]), {"t": "opaque", "tag": "B"}]}, {}))
    # a failed ARRAY check nested in a successful composite one (the first alternative of a union binds a per-leaf axis
    # and then fails): what it bound must be gone, whatever key it was stored under
    for dims1, dims2, shape in (("?a 3", "3 ?a", [3, 4]), ("?a ?a", "?a ?b", [2, 5]), ("a 3", "3 a", [3, 4]), ("*?v 9", "*?v a", [2, 3, 4])):
        u = {"t": "union", "ts": [arr_type(dims1), arr_type(dims2)]}
        for tree in ({"t": "tuple", "xs": [arr_val(shape)]}, {"t": "tuple", "xs": [arr_val(shape), arr_val(shape)]},
                     {"t": "tuple", "xs": [arr_val(shape), arr_val([8, 8, 8])]}):
            cases.append(([], {"t": "pytree", "l": u, "s": "T"}, tree, {}))
    # ... and when a LATER alternative accepts (the composite check passes): what the failed alternative bound is not among
    # the bindings afterwards (expected bindings given explicitly)
    for dims1, dims2, shape, expect in (("a 4", "r c", [3, 5], [["c", 5], ["r", 3]]), ("b *v 4", "r *v", [2, 6, 5], [["r", 2]]), ("a a", "r _", [3, 5], [["r", 3]])):
        u = {"t": "union", "ts": [arr_type(dims1), arr_type(dims2)]}
        for sname in (None, "T"):
            for tree in ({"t": "tuple", "xs": [arr_val(shape)]}, {"t": "dict", "keys": ["v", "w"], "vals": [arr_val(shape), arr_val(shape)]}):
                cases.append(([], {"t": "pytree", "l": u, "s": sname}, tree, {}, expect))
    # a structure name bound earlier survives a failing / raising ARRAY check made in the same context
    for bad_dims, bad_shape in (("n m", [3]), ("zz+1", [3]), ("a a", [2, 3])):
        cases.append(([], arr_type(bad_dims), arr_val(bad_shape), {}, None, {"t": "pytree", "l": gen_prog.INT, "s": "T"}, {"t": "tuple", "xs": [gen_prog.ival(1), gen_prog.ival(2)]}))
    # the leaf type is itself a PyTree WITH a structure name (also inside a union): flattening asks the leaf test at every
    # node, and where a subtree matches, the inner name is bound on the spot — a tree rejected (or raising) later on must
    # take that binding back as well
    I = gen_prog.INT
    iv = gen_prog.ival
    inner_s = {"t": "pytree", "l": I, "s": "S"}
    pair, other = {"t": "tuple", "xs": [iv(1), iv(2)]}, {"t": "tuple", "xs": [iv(3), gen_prog.sval("x")]}
    for lt_ in (inner_s, {"t": "union", "ts": [inner_s, gen_prog.STR]}):
        for sname in (None, "T", "T Q"):
            for tree in ({"t": "list", "xs": [pair, other]}, {"t": "list", "xs": [pair, pair, {"t": "tuple", "xs": [iv(1), iv(2), iv(3)]}]},
                         {"t": "dict", "keys": ["p", "q"], "vals": [pair, other]}, {"t": "list", "xs": [pair, pair]}):
                for prior in ([], [("a", [3])]):
                    cases.append((prior, {"t": "pytree", "l": lt_, "s": sname}, tree, {}))
    for _ in range(n_random):
        lt = gen_prog.rand_leaf_type(rng)
        alpha = {nm: rng.below(4) for nm in gen_dims.NAMES}
        valpha = {nm: [rng.below(4) for _ in range(rng.below(3))] for nm in gen_dims.VNAMES}
        tree = gen_prog.rand_tree(rng, 3 if thorough else 2, lambda: gen_prog.leaf_value_for(rng, lt, alpha, valpha, not rng.chance(1, 6)))
        cases.append(([], {"t": "pytree", "l": lt, "s": rng.choice([None, "T"])}, tree, {}))
    return cases


def case_prog(prior, lt, val, args, pre=None):
    body = [{"op": "check", "l": arr_type(d), "x": arr_val(s)} for d, s in prior]
    if pre is not None:
        body.append({"op": "check", "l": pre[0], "x": pre[1]})
    tgt = {"op": "check", "l": lt, "x": val}
    body += [P, tgt, P, tgt, P]
    if args:
        params = [{"name": k, "ty": gen_prog.ANY, "val": {"t": "opaque", "tag": v} if isinstance(v, str) else gen_prog.ival(v)} for k, v in args.items()]
        return [{"op": "call", "kind": "none", "params": params, "ret": None, "bindok": True, "notc": False, "body": body, "exit": "ret"}]
    return [{"op": "ctx", "body": body, "exit": "ret"}]


def evaluate(out, prog, obs, tag, descr):
    """direct property evaluation on an observation stream [..., B0, V1, B1, V2, B2, ...]"""
    idx = [i for i, o in enumerate(obs) if o["o"] == "bindings"]
    if len(idx) < 3:
        return
    i0, i1, i2 = idx[-3], idx[-2], idx[-1]
    b0, b1, b2 = obs[i0]["m"], obs[i1]["m"], obs[i2]["m"]
    v1, v2 = obs[i0 + 1].get("v"), obs[i1 + 1].get("v")
    out.count("target_" + str(v1))
    if v1 != "T":
        if b1 != b0:
            out.violation(
                f"{tag}:leak:{v1}",
                f"a check that answered {v1} changed the bindings: before {b0} after {b1} ({descr})",
                {"program": prog, "verdict": v1, "bindings_before": b0, "bindings_after": b1},
            )
    else:
        if v2 != "T" or b2 != b1:
            out.violation(
                f"{tag}:idempotence",
                f"repeating an accepted check gave {v2} and bindings {b2} (after first: {b1}) ({descr})",
                {"program": prog, "first": v1, "second": v2, "bindings_after_first": b1, "bindings_after_second": b2},
            )


def run_cases(out, drv, facts, cases, tag, rng):
    skel, wrap = extract.skel_request(facts)
    for case in cases:
        prior, lt, val, args = case[:4]
        expect = case[4] if len(case) > 4 else None
        pre = (case[5], case[6]) if len(case) > 6 else None
        prog = case_prog(prior, lt, val, args, pre)
        w = drv.ask({"cmd": "prog", "prog": prog, "skel": skel, "wrap": wrap})
        got, resid = impl_prog.run_program(prog, "typeguard", rng)
        descr = f"type={json.dumps(lt)[:160]} value={json.dumps(val)[:160]}"
        nontriv = any(o.get("v") in ("F", "ANN", "EXC", "BASEEXC") for o in got)
        out.case((json.dumps(prior), json.dumps(lt), json.dumps(val), json.dumps(args)), nontriv,
                 sample={"prior": prior, "type": lt, "value": val, "args": args, "observed": [o.get("v") for o in got if o["o"] == "verdict"]})
        evaluate(out, prog, got, tag, descr)
        if expect is not None:
            bs = [o["m"] for o in got if o["o"] == "bindings"]
            vs = [o.get("v") for o in got if o["o"] == "verdict"]
            if vs and vs[-1] == "T" and bs and bs[-1]["single"] != expect:
                out.violation(f"{tag}:alternative-leak", f"a composite check passed through a later alternative, but the bindings afterwards are {bs[-1]['single']} instead of "
                              f"{expect}: an alternative that failed left something behind ({descr})", {"program": prog, "bindings": bs[-1], "expected_single": expect})
        if pre is not None:
            bs = [o["m"] for o in got if o["o"] == "bindings"]
            if bs and not all(b["struct"] == bs[0]["struct"] and b["struct"] for b in bs):
                out.violation(f"{tag}:structure-lost", f"a failed / raising array check changed the structure bindings: {[b['struct'] for b in bs]} ({descr})", {"program": prog})
        if "skip" in w:
            out.count("unmodelled")
            continue
        want = impl_prog.canon_model_obs(w["obs"])
        if got != want:
            k = next((i for i, (a, b) in enumerate(zip(got, want)) if a != b), min(len(got), len(want)))
            out.model_diff(f"{tag}:corr", f"model and implementation differ at observation {k}: impl {got[k:k+1]} model {want[k:k+1]} ({descr})",
                           {"program": prog, "impl": got, "model": want})


def run(tier, seed, out, drv, facts):
    rng = Rng(seed, "C04")
    thorough = tier == "thorough"
    run_cases(out, drv, facts, planted_array_cases(rng, 40000 if thorough else 600, thorough), "array", rng)
    run_cases(out, drv, facts, pytree_cases(rng, 30000 if thorough else 500, thorough), "pytree", rng)


def replay(rep, out, drv, facts):
    prog = rep["program"]
    got, _ = impl_prog.run_program(prog, "typeguard", None)
    out.case("replay", True, sample=prog)
    evaluate(out, prog, got, "replay", "replay")
