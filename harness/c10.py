"""C10 — the import hook only adds decorators: everything else in the module is untouched.

Per program (translation validation): the real JaxtypingTransformer is applied to every module
of a corpus (standard library + site-packages + generated modules); directly on the Python AST:
erase(transformed) == original with all locations, counts and positions of the additions,
compile() of the result, docstring / __future__ preserved; the module's definition skeleton is
also pushed through the Lean `transformModule` and compared. Generated modules are executed
plain vs hooked.
"""
import ast
import copy
import glob
import os
import sys
import sysconfig
import traceback
import types

import json

from common import REPO, Rng

from jaxtyping._import_hook import JaxtypingTransformer, Typechecker

LEVEL = "proof"
THEOREMS = ["C10_erase", "C10_count", "C10_import_count", "C10_import_position", "C10_positions", "C10_generated_good", "C10_source_visitors", "C10_source_to_code"]
RULE = (
    "programs = every .py file of the standard library and of site-packages whose original source "
    "compiles (quick: a seeded sample of 300; thorough: all) plus generated modules (decorator stacks, "
    "nested and conditional definitions, async defs, lambdas, several string statements and __future__ "
    "imports in all orders, class bodies, empty modules); each is transformed by the real transformer "
    "and validated; generated modules are also executed plain vs hooked; non-trivial = the module "
    "contains at least one def or class; distinct by file path / generated source"
)
TRUSTED = [
    "Lean 4 kernel",
    "CPython's parser / compiler (\"the result compiles\" is evaluated per program, not proved)",
    "the abstraction of a Python AST to the generic located tree (harness/c10.py: skeleton)",
    "hypothesis of the behavioural clause: the module does not rebind the identifier `jaxtyping`",
    "harness/translate_hook.py (recognisers of the statements of the three visitor methods) and the interpreter Model/HookDsl.lean (generic_visit = transformList)",
    "harness/translate_loader.py (recognisers of the statements of _JaxtypingLoader.source_to_code) and the interpreter Model/LoaderDsl.lean",
]

TC = Typechecker(None)
PARSE_FLAGS = ast.PyCF_ONLY_AST


def parse(source, path):
    return compile(source, path, "exec", PARSE_FLAGS, dont_inherit=True, optimize=-1)


def real_transform(tree, tc=TC):
    t = JaxtypingTransformer(typechecker=tc).visit(tree)
    ast.fix_missing_locations(t)
    return t


def is_prologue(st):
    return (isinstance(st, ast.ImportFrom) and st.module == "__future__") or (isinstance(st, ast.Expr) and isinstance(st.value, ast.Constant))


def is_jaxtyped_deco(d):
    try:
        return ast.unparse(d).startswith("jaxtyping.jaxtyped(typechecker=jaxtyping._import_hook.Typechecker.lookup[")
    except Exception:
        return False


def erase_py(tree):
    """undo the three kinds of additions; returns (tree, problems, counts)"""
    problems = []
    n_import = 0
    body = tree.body
    for i, st in enumerate(body):
        if is_prologue(st):
            continue
        if isinstance(st, ast.Import) and len(st.names) == 1 and st.names[0].name == "jaxtyping" and st.names[0].asname is None:
            del body[i]
            n_import = 1
        break
    n_deco = 0
    for node in ast.walk(tree):
        if isinstance(node, ast.FunctionDef):
            if not node.decorator_list or not is_jaxtyped_deco(node.decorator_list[-1]):
                problems.append(f"def {node.name} line {node.lineno}: last decorator is not the jaxtyped one")
            else:
                d = node.decorator_list.pop()
                n_deco += 1
                if (d.lineno, d.col_offset, d.end_lineno, d.end_col_offset) != (node.lineno, node.col_offset, node.end_lineno, node.end_col_offset):
                    problems.append(f"def {node.name}: decorator location {(d.lineno, d.col_offset)} is not the definition's {(node.lineno, node.col_offset)}")
        elif isinstance(node, ast.ClassDef):
            if not node.decorator_list or not is_jaxtyped_deco(node.decorator_list[0]):
                problems.append(f"class {node.name} line {node.lineno}: first decorator is not the jaxtyped one")
            else:
                d = node.decorator_list.pop(0)
                n_deco += 1
                if (d.lineno, d.col_offset, d.end_lineno, d.end_col_offset) != (node.lineno, node.col_offset, node.end_lineno, node.end_col_offset):
                    problems.append(f"class {node.name}: decorator location is not the definition's")
        elif isinstance(node, ast.AsyncFunctionDef):
            if any(is_jaxtyped_deco(d) for d in node.decorator_list):
                problems.append(f"async def {node.name}: got a jaxtyped decorator")
    return tree, problems, (n_import, n_deco)


def loc_of(node):
    return [getattr(node, "lineno", 0) or 0, getattr(node, "col_offset", 0) or 0, getattr(node, "end_lineno", 0) or 0, getattr(node, "end_col_offset", 0) or 0]


def skeleton(node):
    """generic located tree: definitions, prologue statements, the hook's additions; every other
    node is kept only if a definition lies beneath it"""
    if isinstance(node, ast.Module):
        kind = "module"
    elif isinstance(node, ast.FunctionDef):
        kind = "funcDef"
    elif isinstance(node, ast.AsyncFunctionDef):
        kind = "asyncFuncDef"
    elif isinstance(node, ast.ClassDef):
        kind = "classDef"
    elif isinstance(node, ast.ImportFrom) and node.module == "__future__":
        kind = "futureImport"
    elif isinstance(node, ast.Expr) and isinstance(node.value, ast.Constant):
        kind = "constExpr"
    elif isinstance(node, ast.Import) and len(node.names) == 1 and node.names[0].name == "jaxtyping" and getattr(node, "_added", False):
        kind = "importJaxtyping"
    elif isinstance(node, ast.expr) and getattr(node, "_is_jx", False):
        kind = "jaxtypedDecorator"
    else:
        kind = type(node).__name__
    decos = []
    kids = []
    if kind in ("jaxtypedDecorator", "importJaxtyping"):
        return [kind, loc_of(node) if kind == "jaxtypedDecorator" else [0, 0, 0, 0], [], []]
    for field, value in ast.iter_fields(node):
        vals = value if isinstance(value, list) else [value]
        for v in vals:
            if isinstance(v, ast.AST):
                s = skeleton(v)
                if s is None:
                    continue
                (decos if field == "decorator_list" else kids).append(s)
    interesting = kind in ("module", "funcDef", "asyncFuncDef", "classDef", "futureImport", "constExpr")
    if not interesting and not kids and not decos:
        # statements directly in a module body matter for the import position even when they
        # contain no definition
        return [kind, loc_of(node), [], []] if isinstance(node, ast.stmt) and getattr(node, "_toplevel", False) else None
    return [kind, loc_of(node), decos, kids]


def mark(tree):
    for st in tree.body:
        st._toplevel = True


def mark_additions(tree):
    for i, st in enumerate(tree.body):
        if is_prologue(st):
            continue
        if isinstance(st, ast.Import) and len(st.names) == 1 and st.names[0].name == "jaxtyping" and not hasattr(st, "_orig"):
            st._added = True
        break
    for node in ast.walk(tree):
        if isinstance(node, (ast.FunctionDef, ast.ClassDef)):
            for d in node.decorator_list:
                if is_jaxtyped_deco(d) and not hasattr(d, "_orig"):
                    d._is_jx = True


def validate(out, drv, source, path, tag, with_model=True):
    try:
        tree0 = parse(source, path)
        compile(tree0, path, "exec", dont_inherit=True, optimize=-1)
    except (SyntaxError, ValueError, RecursionError, MemoryError):
        out.count("skipped_original_does_not_compile")
        return None
    n_defs = sum(isinstance(n, (ast.FunctionDef, ast.ClassDef)) for n in ast.walk(tree0))
    ref = parse(source, path)
    for n in ast.walk(ref):
        n._orig = True
    mark(ref)
    try:
        real = real_transform(ref)
    except RecursionError:
        out.count("skipped_recursion")
        return None
    rep = {"path": path, "defs": n_defs}
    if tag == "generated":
        rep["source"] = source
    out.case((tag, path if tag != "generated" else source), n_defs > 0, sample={"program": path, "defs_and_classes": n_defs, "kind": tag})
    out.count("programs")
    out.count("definitions", n_defs)
    # the result compiles
    try:
        code = compile(copy.deepcopy(real) if False else real, path, "exec", dont_inherit=True, optimize=-1)
    except Exception as e:  # noqa: BLE001
        out.violation(f"compile:{type(e).__name__}", f"the transformed module {path} does not compile: {e}", rep)
        return None
    # model correspondence on the definition skeleton
    if with_model:
        mark(tree0)
        sk0 = skeleton(tree0)
        mark_additions(real)
        sk1 = skeleton(real)
        try:
            w = drv.ask({"cmd": "transform", "tree": sk0})
            if w["tree"] != sk1:
                out.model_diff("skeleton", f"the real transformer and the Lean transformModule disagree on the definition skeleton of {path}", dict(rep, model=str(w["tree"])[:600], real=str(sk1)[:600]))
        except RecursionError:
            out.count("skeleton_recursion")
    # direct: erase(transformed) == original, locations included
    erased, problems, (n_import, n_deco) = erase_py(real)
    for pr in problems[:3]:
        out.violation("position:" + pr.split(":")[-1].strip()[:60], f"{path}: {pr}", rep)
    has_stmt = any(not is_prologue(st) for st in tree0.body)
    if n_deco != n_defs:
        out.violation("count:decorators", f"{path}: {n_deco} decorators added for {n_defs} defs/classes", rep)
    if n_import != (1 if has_stmt else 0):
        out.violation("count:import", f"{path}: {n_import} `import jaxtyping` statements added, expected {1 if has_stmt else 0}", rep)
    try:
        same = ast.dump(erased, include_attributes=True) == ast.dump(tree0, include_attributes=True)
    except RecursionError:
        out.count("dump_recursion")
        same = True
    if not same:
        a, b = ast.dump(erased, include_attributes=True), ast.dump(tree0, include_attributes=True)
        k = next((i for i, (x, y) in enumerate(zip(a, b)) if x != y), min(len(a), len(b)))
        out.violation("erase-differs", f"{path}: after removing the additions the tree differs from the original near …{b[max(0, k - 80):k + 80]}…", rep)
    if ast.get_docstring(tree0) != ast.get_docstring(real):
        out.violation("docstring", f"{path}: module docstring changed", rep)
    return code


def corpus_files():
    roots = [sysconfig.get_paths()["stdlib"], sysconfig.get_paths()["purelib"]]
    files = []
    for r in roots:
        files.extend(glob.glob(os.path.join(r, "**", "*.py"), recursive=True))
    return sorted(set(files))


# ----------------------------------------------------------------------------- generated modules

PROLOGUES = [[], ['"""doc"""'], ["from __future__ import annotations"], ['"""doc"""', "from __future__ import annotations"],
             ['"""doc"""', "'second string'", "from __future__ import annotations", "from __future__ import division"],
             ["from __future__ import annotations", '"""not a docstring"""'], ["1", "2.5", "None"],
             # an EMPTY docstring is a docstring too (falsy, but the first statement)
             ['""'], ['""', "from __future__ import annotations"], ["''", "from __future__ import annotations", "from __future__ import division"], ['""', "'second'"]]


KITCHEN_SINK = '''"""module docstring"""
from __future__ import annotations
import sys
LOG = []
def deco(f):
    LOG.append(('deco', getattr(f, '__name__', '?')))
    return f
def top(x):
    return x
@deco
@deco
def stacked(x):
    return x
class K:
    """class doc"""
    def m(self, x):
        def inner(y):
            class Local:
                def lm(self, z):
                    return z
            return Local().lm(y)
        return inner(x)
    class Nested:
        @staticmethod
        def s(q):
            return q
if LOG is not None:
    def in_if(x):
        return ('if', x)
elif LOG:
    def in_elif(x):
        return x
else:
    def in_else(x):
        return x
for _i in range(1):
    def in_for(x):
        return ('for', x)
else:
    def in_for_else(x):
        return ('forelse', x)
while False:
    def in_while(x):
        return x
else:
    def in_while_else(x):
        return ('whileelse', x)
with open(__file__ if '__file__' in globals() else sys.executable, 'rb') as _fh:
    def in_with(x):
        return ('with', x)
try:
    def in_try(x):
        return ('try', x)
    raise KeyError('k')
except KeyError:
    def in_except(x):
        return ('except', x)
else:
    def in_try_else(x):
        return x
finally:
    def in_finally(x):
        return ('finally', x)
try:
    pass
except* ValueError:
    def in_except_star(x):
        return x
match LOG:
    case []:
        def in_match_case(x):
            return ('match', x)
    case [first, *rest]:
        def in_match_case2(x):
            if x:
                def in_if_in_match_case(y):
                    return y
                return in_if_in_match_case(x)
            return x
        class InCase:
            def cm(self, x):
                return x
    case _:
        def in_match_default(x):
            return x
async def coro(x):
    def helper(y):
        return y * 2
    async def inner_coro(z):
        return z
    return helper(x)
lam = lambda x: (lambda y: y + x)(1)
def main():
    out = [top(1), stacked(2), K().m(3), K.Nested.s(4), in_if(5), in_for(6), in_for_else(7), in_while_else(8), in_with(9), in_try(10), in_except(11),
           in_finally(12), in_match_case2(13), InCase().cm(14), __import__('asyncio').run(coro(15)), lam(16)]
    return out, LOG
'''


def gen_module(rng):
    lines = list(rng.choice(PROLOGUES))
    lines.append("LOG = []")
    lines.append("def deco(f):\n    LOG.append(('deco', getattr(f, '__name__', '?')))\n    return f")
    n = rng.rng(0, 5)
    names = []
    for i in range(n):
        kind = rng.below(9)
        stack = "".join("@deco\n" for _ in range(rng.below(3)))
        if kind == 0:
            lines.append(f"{stack}def f{i}(x, y=2):\n    'doc'\n    LOG.append(('f{i}', x, y))\n    return x + y")
            names.append(f"f{i}(1)")
        elif kind == 1:
            lines.append(f"{stack}class C{i}:\n    'cdoc'\n    z = {i}\n    def m(self, a):\n        LOG.append(('C{i}.m', a))\n        return a * self.z\n    @staticmethod\n    def s(a):\n        return a\n    @classmethod\n    def c(cls, a):\n        return (cls.__name__, a)")
            names.append(f"(C{i}().m(3), C{i}.s(4), C{i}.c(5))")
        elif kind == 2:
            lines.append(f"if {rng.choice(['True', 'False', 'LOG is not None', '__import__(\"typing\").TYPE_CHECKING'])}:\n    def g{i}(x):\n        def inner(y):\n            return y + 1\n        return inner(x)\nelse:\n    def g{i}(x):\n        return -x")
            names.append(f"g{i}(10)")
        elif kind == 3:
            lines.append(f"async def a{i}(x):\n    def helper(y):\n        return y * 2\n    return helper(x)")
            names.append(f"__import__('asyncio').run(a{i}(3))")
        elif kind == 4:
            lines.append(f"l{i} = lambda x: (lambda y: y + x)(1)")
            names.append(f"l{i}(5)")
        elif kind == 5:
            lines.append(f"try:\n    def t{i}():\n        return 't{i}'\nexcept Exception:\n    pass\nfor _k in range(2):\n    def loop{i}(q=_k):\n        return q")
            names.append(f"(t{i}(), loop{i}())")
        elif kind == 7:
            lines.append(f"match {rng.choice(['LOG', '[1, 2]', '(1,)', '{i}'])}:\n    case []:\n        def mc{i}(x):\n            return ('empty', x)\n    case [a, *b]:\n        def mc{i}(x):\n            def deep(y):\n                return (a, y)\n            return deep(x)\n    case _:\n        class MC{i}:\n            pass\n        def mc{i}(x):\n            return ('other', x)")
            names.append(f"mc{i}(7)")
        elif kind == 8:
            lines.append(f"with __import__('contextlib').nullcontext():\n    def w{i}(x):\n        return x\nwhile True:\n    def wh{i}(x):\n        return -x\n    break\ntry:\n    raise KeyError()\nexcept KeyError:\n    def ex{i}(x):\n        return ('except', x)\nfinally:\n    def fin{i}(x):\n        return ('finally', x)")
            names.append(f"(w{i}(1), wh{i}(2), ex{i}(3), fin{i}(4))")
        else:
            lines.append(f"def boom{i}(x):\n    y = x\n    raise ValueError('boom')")
            names.append(f"boom{i}(0)")
    lines.append("def main():\n    out = []\n" + "".join(f"    try:\n        out.append(repr({e}))\n    except Exception as e:\n        import traceback\n        out.append((type(e).__name__, [fr.lineno for fr in traceback.extract_tb(e.__traceback__) if fr.filename == __file__]))\n" for e in names) + "    return out, LOG")
    return "\n".join(lines) + "\n"


FUTURE_MASK = 0
for _f in __import__("__future__").all_feature_names:
    FUTURE_MASK |= getattr(__import__("__future__"), _f).compiler_flag


def future_flags(code, prefix=""):
    """{qualified name: __future__ bits of co_flags} for a code object and everything nested in it"""
    res = {prefix + code.co_name: code.co_flags & FUTURE_MASK}
    for c in code.co_consts:
        if isinstance(c, types.CodeType):
            res.update(future_flags(c, prefix + code.co_name + "."))
    return res


def through_loader(source, path, tc=None):
    """the code object the REAL loader produces for this source (parse, transform, compile as the loader does it)"""
    from jaxtyping._import_hook import Typechecker, _JaxtypingLoader

    loader = _JaxtypingLoader("genmod", path, typechecker=tc or TC)
    return loader.source_to_code(source.encode(), path)


_SPY = types.ModuleType("c10spy")
_SPY.SEEN = []
exec("def check(fn, *a, **k):\n    SEEN.append(getattr(fn, '__qualname__', '?'))\n    return fn\n", _SPY.__dict__)
sys.modules["c10spy"] = _SPY
TC_SPY = None


def decorated_by(code, path):
    """run a module compiled with the spy typechecker: which definitions reached the typechecker, in order"""
    _SPY.SEEN.clear()
    try:
        execute(code, path)
    except BaseException as e:  # noqa: BLE001
        return ["RAISED:" + type(e).__name__] + list(_SPY.SEEN)
    return list(_SPY.SEEN)


ANNOTATED_MODULE = '''LOG = []
def handler(event: int, scale: float = 1.0) -> str:
    return str(event * scale)
class Rec:
    size: int
    name: "str"
    def get(self, k: int) -> "Rec":
        return self
REGISTRY = {handler.__annotations__["event"]: handler}
def main():
    return ([repr(v) for v in handler.__annotations__.values()], sorted((k, repr(v)) for k, v in Rec.__annotations__.items()),
            [repr(v) for v in Rec.get.__annotations__.values()], REGISTRY[int](3), handler.__annotations__["event"] is int), LOG
'''


TYPE_CHECKING_MODULE = '''import typing
from typing import TYPE_CHECKING
LOG = []
if TYPE_CHECKING:
    def only_for_checkers(x):
        return x
else:
    def scale(x):
        return 2 * x
    class Box:
        def get(self, k):
            return k
if typing.TYPE_CHECKING:
    pass
elif LOG is not None:
    def shift(x):
        return x + 1
if not TYPE_CHECKING:
    def plain(x):
        return x
def main():
    return (scale(1), Box().get(2), shift(3), plain(4)), LOG
'''


OWN_IMPORT_MODULE = '''"""a module that imports jaxtyping itself, but only AFTER its first definitions"""
LOG = []
def early(x):
    return x
class Early:
    def m(self, y):
        return y
import jaxtyping
import jaxtyping as jt
def late(x):
    return (jaxtyping.__name__, jt.__name__, x)
def main():
    return (early(1), Early().m(2), late(3)), LOG
'''


TYPE_COMMENT_MODULE = '''"""comments that merely LOOK like PEP 484 type comments, in places where a type comment is not grammatical"""
LOG = []
import os  # type: module
def scale(x, k=2):  # type: (int, int) -> int
    y = x * k  # type: int
    table = [
        1,  # type: first entry
        2,
    ]
    # type: this line is prose
    if y:  # type: ignored because reasons
        LOG.append(len(table))
    return y  # type: the result
class Box:
    def get(self):
        return os.sep  # type: str
def main():
    return (scale(3), Box().get()), LOG
'''


TAB_MODULE = (
    '"""legal but unusual spacing: a tab / a form feed / a line continuation after the keywords"""\n'
    "LOG = []\n"
    "def\tscale(x, k=2):\n    return x * k\n"
    "class\tPoint:\n    def\t__init__(self, v):\n        self.v = v\n    def\\\n    get(self):\n        return self.v\n"
    "async\tdef\twaiter():\n    return 0\n"
    "def\x0couter():\n    def\tinner():\n        return 1\n    return inner()\n"
    "def\tmain():\n    return (scale(3), Point(4).get(), outer()), LOG\n"
)

NAMED_DECORATOR_MODULE = '''"""project-local decorators that merely share their NAME with typecheckers"""
LOG = []
def typechecked(fn):
    LOG.append(("typechecked got", type(fn).__name__))
    return fn
def beartype(fn=None, **conf):
    if fn is None:
        return lambda f: beartype(f)
    LOG.append(("beartype got", type(fn).__name__))
    return fn
class ns:
    typechecked = staticmethod(typechecked)
@typechecked
def one(x):
    return x
@beartype
def two(x):
    return x
@beartype(strict=True)
@typechecked
def three(x):
    return x
@ns.typechecked
def four(x):
    return x
class K:
    @typechecked
    def m(self, x):
        return x
def main():
    return (one(1), two(2), three(3), four(4), K().m(5)), LOG
'''


def execute(code, path):
    mod = types.ModuleType("genmod")
    mod.__file__ = path
    exec(code, mod.__dict__)
    return mod.main(), {k: (getattr(v, "__name__", None), getattr(v, "__doc__", None)) for k, v in mod.__dict__.items() if callable(v) and not k.startswith("__")}, mod.__doc__


FIXED_MODULES = [KITCHEN_SINK, ANNOTATED_MODULE, TYPE_CHECKING_MODULE, OWN_IMPORT_MODULE, TYPE_COMMENT_MODULE, TAB_MODULE, NAMED_DECORATOR_MODULE]


ENCODED_BODY = 'LOG = []\ndef shout(x):\n    """caf\u00e9 \u2013 na\u00efve"""\n    return x + "\u00e9\u00df"\nclass K:\n    def m(self):\n        return "\u00fc"\ndef main():\n    return (shout("a"), K().m(), shout.__doc__), LOG\n'


def encoded_module_cases(out):
    """the loader is handed BYTES: modules with a PEP 263 coding cookie, a UTF-8 byte-order mark, a cookie on the second
    line, and plain UTF-8, as the interpreter itself would read them — the hooked module is the plain one"""
    latin = ENCODED_BODY.replace("\u2013", "-")
    cases = [
        ("utf8", ENCODED_BODY.encode("utf-8")),
        ("utf8-bom", b"\xef\xbb\xbf" + ENCODED_BODY.encode("utf-8")),
        ("latin1-cookie", b"# -*- coding: latin-1 -*-\n" + latin.encode("latin-1")),
        ("cookie-second-line", b"#!/usr/bin/env python\n# vim: set fileencoding=iso-8859-15 :\n" + latin.encode("iso-8859-15")),
        ("cp1252-cookie-utf8-bytes", b"# coding: cp1252\n" + latin.encode("utf-8")),
        ("utf8-cookie-bom", b"\xef\xbb\xbf# coding: utf-8\n" + ENCODED_BODY.encode("utf-8")),
    ]
    from jaxtyping._import_hook import _JaxtypingLoader

    for name, data in cases:
        path = f"<encoded {name}>"
        out.count("encoded_modules")
        try:
            plain = execute(compile(data, path, "exec", dont_inherit=True), path)
        except Exception as e:  # noqa: BLE001
            out.count("encoded_plain_failed")
            continue
        out.case(("encoded", name), nontrivial=name != "utf8")
        try:
            hooked = execute(_JaxtypingLoader("genmod", path, typechecker=TC).source_to_code(data, path), path)
        except BaseException as e:  # noqa: BLE001
            out.violation(f"loader:encoded:{type(e).__name__}", f"a module stored as {name} imports plainly, but through the hook's loader it fails: {e!r}",
                          {"encoded": name, "data_hex": data.hex()})
            continue
        if hooked != plain:
            out.violation("loader:encoded:behaviour", f"a module stored as {name} behaves differently through the hook's loader: {str(plain)[:200]} vs {str(hooked)[:200]}",
                          {"encoded": name, "data_hex": data.hex()})


LIFETIME_RUNNER = """
import sys, json, gc, importlib
root, repo = sys.argv[1], sys.argv[2]
sys.path[:0] = [root, repo]
import jaxtyping
import c10life_plain
res = {"plain": c10life_plain.run()}
h1 = jaxtyping.install_import_hook("c10life_hooked", "typeguard.typechecked")
import c10life_hooked
res["hooked"] = c10life_hooked.run()
steps = []
def probe(what):
    gc.collect()
    try:
        steps.append([what, c10life_hooked.run()])
    except BaseException as e:
        steps.append([what, "raised " + type(e).__name__ + ": " + str(e)[:80]])
# another hook with the same typechecker string comes and goes without loading anything
with jaxtyping.install_import_hook("c10life_plain", "typeguard.typechecked"):
    pass
probe("after a second hook with the same typechecker was installed and removed")
h2 = jaxtyping.install_import_hook("c10life_nothing", "typeguard.typechecked"); h2.uninstall(); del h2
probe("after a third one was installed, uninstalled and dropped")
h1.uninstall(); del h1
probe("after the module's own hook was uninstalled and dropped")
with jaxtyping.install_import_hook("c10life_nothing", None):
    pass
probe("after a hook with another typechecker came and went")
res["steps"] = steps
print(json.dumps(res))
"""

LIFETIME_MODULE = '''def make(k: int):
    def add(x: int) -> int:      # a definition that is EXECUTED each time make() runs: so is the decorator placed on it
        return x + k
    return add
class Outer:
    def build(self, k: int):
        class Local:
            def get(self, x: int) -> int:
                return x * k
        return Local()
def run():
    return [make(2)(3), Outer().build(2).get(3), make(5)(1)]
'''


def lookup_lifetime_cases(out):
    """definitions nested in functions are decorated every time the enclosing function runs — long after the import: a
    hooked module keeps behaving like the plain one whatever happens to hooks afterwards (other hooks with the same or
    another typechecker installed, removed and garbage-collected, its own hook removed)"""
    import subprocess

    from common import PY, scratch_dir

    with scratch_dir("jaxverif_c10life_") as root:
        for name in ("c10life_plain", "c10life_hooked"):
            with open(os.path.join(root, name + ".py"), "w") as fh:
                fh.write(LIFETIME_MODULE)
        r = subprocess.run([PY, "-c", LIFETIME_RUNNER, root, REPO], capture_output=True, text=True, timeout=300, env=dict(os.environ, PYTHONDONTWRITEBYTECODE="1"))
        try:
            got = json.loads(r.stdout.strip().splitlines()[-1])
        except Exception:  # noqa: BLE001
            out.violation("lookup-lifetime:run-failed", f"the run failed: {r.stderr[-400:]}", {"lookup_lifetime": True})
            return
    out.case(("lookup-lifetime",), True, sample=got)
    bad = [st for st in [["right after the import", got.get("hooked")]] + got.get("steps", []) if st[1] != got.get("plain")]
    if bad:
        out.violation("lookup-lifetime", f"a hooked module whose functions define functions / classes when CALLED gives {bad[0][1]} {bad[0][0]}; the plain module gives {got.get('plain')}",
                      {"lookup_lifetime": bad[0][0]})


def run(tier, seed, out, drv, facts):
    import warnings

    warnings.filterwarnings("ignore", category=SyntaxWarning)     # corpus files with invalid escapes etc.: not our concern
    encoded_module_cases(out)
    lookup_lifetime_cases(out)
    rng = Rng(seed, "C10")
    thorough = tier == "thorough"
    sys.setrecursionlimit(max(sys.getrecursionlimit(), 5000))
    files = corpus_files()
    if not thorough:
        files = rng.sample(files, 300)
    for ci, path in enumerate(files):
        try:
            with open(path, "rb") as fh:
                from importlib.util import decode_source

                source = decode_source(fh.read())
        except Exception:  # noqa: BLE001
            out.count("skipped_undecodable")
            continue
        validate(out, drv, source, path, "corpus")
        # every sixth file also through the REAL loader: whatever compiles plainly compiles there
        if ci % 6 == 0:
            try:
                compile(source, path, "exec", dont_inherit=True)
            except Exception:  # noqa: BLE001
                continue
            out.count("corpus_files_through_loader")
            try:
                through_loader(source, path)
            except Exception as e:  # noqa: BLE001
                out.violation(f"loader:{type(e).__name__}", f"the loader fails on {path}, which compiles plainly: {e!r}", {"source": source})
    n_gen = 3000 if thorough else 200
    for i in range(n_gen + 1):
        # the first "generated" module is a fixed one with a definition in every kind of statement block
        # (if/elif/else, for/else, while/else, with, try/except/else/finally, except*, match cases, nested)
        source = FIXED_MODULES[i] if i < len(FIXED_MODULES) else gen_module(rng)
        path = f"<generated {i}>"
        code = validate(out, drv, source, path, "generated")
        if code is None:
            continue
        try:
            plain = execute(compile(source, path, "exec", dont_inherit=True), path)
        except Exception as e:  # noqa: BLE001
            out.count("generated_plain_failed")
            continue
        try:
            hooked = execute(code, path)
        except Exception as e:  # noqa: BLE001
            out.violation(f"execute:{type(e).__name__}", f"a hooked generated module fails where the plain one runs: {e!r}", {"source": source})
            continue
        if plain != hooked:
            out.violation("behaviour", f"a hooked module behaves differently from the plain one: {str(plain)[:300]} vs {str(hooked)[:300]}", {"source": source})
        # the same module through the real loader: the compile step must not add or lose __future__ behaviour, and the
        # module must behave as when it is compiled here from the transformed tree
        if i % 10 == 0 or i < len(FIXED_MODULES):
            try:
                lcode = through_loader(source, path)
            except Exception as e:  # noqa: BLE001
                out.violation(f"loader:{type(e).__name__}", f"the loader fails on a module that compiles plainly: {e!r}", {"source": source})
                continue
            # ... and decorate the same definitions as the transformer applied to the parsed tree does (the loader may hand the
            # transformer more than the tree)
            global TC_SPY
            if TC_SPY is None:
                TC_SPY = Typechecker("c10spy.check")
            try:
                mine = decorated_by(compile(real_transform(parse(source, path), TC_SPY), path, "exec", dont_inherit=True), path)
                theirs = decorated_by(through_loader(source, path, TC_SPY), path)
            except Exception as e:  # noqa: BLE001
                mine, theirs = [], ["ERROR:" + type(e).__name__]
            n_defs_run = len(mine)
            if mine != theirs:
                out.violation("loader:definitions-decorated", f"through the loader the typechecker is applied to {theirs[:8]}…, the transformer applied to the parsed module gives {mine[:8]}… "
                              f"({n_defs_run} definitions executed)", {"source": source})
            pf = future_flags(compile(source, path, "exec", dont_inherit=True))
            lf = future_flags(lcode)
            bad = {k: (pf[k], lf.get(k)) for k in pf if lf.get(k) != pf[k]}
            if bad:
                out.violation("loader:future-flags", f"code compiled by the loader has other __future__ flags than the plain module: {dict(list(bad.items())[:3])}", {"source": source})
            else:
                try:
                    via_loader = execute(lcode, path)
                except Exception as e:  # noqa: BLE001
                    out.violation(f"loader-execute:{type(e).__name__}", f"the module as compiled by the loader fails where the plain one runs: {e!r}", {"source": source})
                    continue
                if via_loader != plain:
                    out.violation("loader:behaviour", f"the module as compiled by the loader behaves differently from the plain one: {str(plain)[:300]} vs {str(via_loader)[:300]}", {"source": source})
    _LAST.update({"programs": out.hist.get("programs", 0), "disagreements_checked": out.hist.get("programs", 0),
                  "definitions_transformed": out.hist.get("definitions", 0)})


_LAST = {}


def extra_coverage():
    return dict(_LAST)


def replay(rep, out, drv, facts):
    if "lookup_lifetime" in rep:
        lookup_lifetime_cases(out)
        return
    if "encoded" in rep:
        encoded_module_cases(out)
        return
    if "source" in rep:
        validate(out, drv, rep["source"], rep.get("path", "<replay>"), "generated")
    else:
        validate(out, drv, open(rep["path"]).read(), rep["path"], "corpus")
