/-
Helper lemmas for C08: PyTree[L] accepts exactly the trees all of whose leaves match L.
Core Lean only.
-/
import JaxVerif.Spec.Trees
import JaxVerif.Spec.Calls
import JaxVerif.Lemmas.Rollback
import JaxVerif.Lemmas.Calls

namespace JV

theorem checkLs_of_forall (sk : Skel) : ∀ (ts : List LType),
    (∀ t ∈ ts, ∀ x st, checkL sk t x st = (st, if accL t x then Verdict.T else Verdict.F)) →
    ∀ xs st, checkLs sk ts xs st = (st, if accLs ts xs then Verdict.T else Verdict.F)
  | [], _, xs, st => by rw [checkLs, accLs]; rfl
  | _ :: _, _, [], st => by rw [checkLs, accLs]; rfl
  | t :: ts, h, x :: xs, st => by
    rw [checkLs, accLs, h t (List.mem_cons_self ..)]
    cases accL t x
    · rfl
    · exact checkLs_of_forall sk ts (fun t ht => h t (List.mem_cons_of_mem _ ht)) xs st

theorem checkLU_of_forall (sk : Skel) : ∀ (ts : List LType),
    (∀ t ∈ ts, ∀ x st, checkL sk t x st = (st, if accL t x then Verdict.T else Verdict.F)) →
    ∀ x st, checkLU sk ts x st = (st, if accLU ts x then Verdict.T else Verdict.F)
  | [], _, x, st => by rw [checkLU, accLU]; rfl
  | t :: ts, h, x, st => by
    rw [checkLU, accLU, h t (List.mem_cons_self ..)]
    cases accL t x
    · exact checkLU_of_forall sk ts (fun t ht => h t (List.mem_cons_of_mem _ ht)) x st
    · rfl

theorem checkL_memofree (sk : Skel) (l : LType) (h : MemoFree l) (x : Obj) (st : CState) :
    checkL sk l x st = (st, if accL l x then .T else .F) := by
  induction h generalizing x st with
  | any => unfold checkL accL; rfl
  | int => unfold checkL accL; cases x <;> rfl
  | str => unfold checkL accL; cases x <;> rfl
  | noneT => unfold checkL accL; cases x <;> rfl
  | user acc =>
    unfold checkL accL
    cases x <;> rfl
  | tuple ts _ ih =>
    unfold checkL accL
    cases x <;> try rfl
    · rename_i xs
      dsimp only
      by_cases hl : xs.length = ts.length
      · simp only [hl, bne_self_eq_false, Bool.false_eq_true, if_false, beq_self_eq_true, Bool.true_and]
        exact checkLs_of_forall sk ts ih xs st
      · have : (xs.length != ts.length) = true := by simpa using hl
        have h2 : (xs.length == ts.length) = false := by simpa using hl
        simp only [this, if_true, h2, Bool.false_and, Bool.false_eq_true, if_false]
    · rename_i tag xs
      dsimp only
      by_cases hl : xs.length = ts.length
      · simp only [hl, bne_self_eq_false, Bool.false_eq_true, if_false, beq_self_eq_true, Bool.true_and]
        exact checkLs_of_forall sk ts ih xs st
      · have : (xs.length != ts.length) = true := by simpa using hl
        have h2 : (xs.length == ts.length) = false := by simpa using hl
        simp only [this, if_true, h2, Bool.false_and, Bool.false_eq_true, if_false]
  | union ts _ ih =>
    unfold checkL accL
    exact checkLU_of_forall sk ts ih x st

/-! ### leaf checks that decide a pure predicate

`LeafSpec I R g p`: on fault-free values and states satisfying `I`, the leaf check `g` answers
`p`, keeps `I`, and moves the state along `R`. -/

structure LeafSpec (I : CState → Prop) (R : CState → CState → Prop)
    (g : Obj → CState → CState × Verdict) (p : Obj → Bool) : Prop where
  refl : ∀ s, R s s
  trans : ∀ a b c, R a b → R b c → R a c
  step : ∀ x st, x.noFault = true → I st →
    (g x st).2 = (if p x then Verdict.T else Verdict.F) ∧ R st (g x st).1 ∧ I (g x st).1

theorem leavesWith_of_true (p : Obj → Bool) (x : Obj) (h : p x = true) : leavesWith p x = [x] := by
  cases x <;> simp only [leavesWith, h, if_true]

theorem leavesWith_of_false (p : Obj → Bool) (x : Obj) (cs : List Obj) (h : p x = false)
    (hc : x.children? = some cs) : leavesWith p x = leavesWithList p cs := by
  cases x <;> simp only [Obj.children?, Option.some.injEq, reduceCtorEq] at hc <;> subst hc <;>
    simp only [leavesWith, h, Bool.false_eq_true, if_false, leavesWithList]

mutual
theorem flat_spec (I : CState → Prop) (R : CState → CState → Prop)
    (f : Obj → CState → CState × Verdict) (u : Bool) (p : Obj → Bool)
    (hf : LeafSpec I R (fun x st => if u then f x st else (st, Verdict.F)) p) :
    ∀ (x : Obj) (st : CState), x.noFault = true → I st →
      ∃ st' d, flat f u x st = (st', .ok (leavesWith p x) d) ∧ R st st' ∧ I st'
  | x, st, hx, hI => by
    have h0 := hf.step x st hx hI
    rw [flat]
    generalize (if u then f x st else (st, Verdict.F)) = r at h0
    obtain ⟨st', v⟩ := r
    obtain ⟨hv, hR, hI'⟩ := h0
    dsimp only at hv hR hI'
    cases hp : p x with
    | true =>
      rw [hp, if_pos rfl] at hv
      subst hv
      exact ⟨st', .leaf, by rw [leavesWith_of_true p x hp], hR, hI'⟩
    | false =>
      rw [hp] at hv
      simp only [Bool.false_eq_true, if_false] at hv
      subst hv
      cases x with
      | tuple xs =>
        obtain ⟨st2, ds, h2, hR2, hI2⟩ := flatList_spec I R f u p hf xs st'
          (by simpa only [Obj.noFault] using hx) hI'
        refine ⟨st2, .node .tuple ds, ?_, hf.trans _ _ _ hR hR2, hI2⟩
        simp only [h2, wrapNode, leavesWith, hp, Bool.false_eq_true, if_false]
      | list xs =>
        obtain ⟨st2, ds, h2, hR2, hI2⟩ := flatList_spec I R f u p hf xs st'
          (by simpa only [Obj.noFault] using hx) hI'
        refine ⟨st2, .node .list ds, ?_, hf.trans _ _ _ hR hR2, hI2⟩
        simp only [h2, wrapNode, leavesWith, hp, Bool.false_eq_true, if_false]
      | dict ks vs =>
        obtain ⟨st2, ds, h2, hR2, hI2⟩ := flatList_spec I R f u p hf vs st'
          (by simpa only [Obj.noFault] using hx) hI'
        refine ⟨st2, .node (.dict ks) ds, ?_, hf.trans _ _ _ hR hR2, hI2⟩
        simp only [h2, wrapNode, leavesWith, hp, Bool.false_eq_true, if_false]
      | ntuple tag xs =>
        obtain ⟨st2, ds, h2, hR2, hI2⟩ := flatList_spec I R f u p hf xs st'
          (by simpa only [Obj.noFault] using hx) hI'
        refine ⟨st2, .node (.custom ("namedtuple:" ++ tag)) ds, ?_, hf.trans _ _ _ hR hR2, hI2⟩
        simp only [h2, wrapNode, leavesWith, hp, Bool.false_eq_true, if_false]
      | custom tag fault xs =>
        simp only [Obj.noFault, Bool.and_eq_true, Option.isNone_iff_eq_none] at hx
        obtain ⟨hfault, hxs⟩ := hx
        subst hfault
        obtain ⟨st2, ds, h2, hR2, hI2⟩ := flatList_spec I R f u p hf xs st' hxs hI'
        refine ⟨st2, .node (.custom tag) ds, ?_, hf.trans _ _ _ hR hR2, hI2⟩
        simp only [h2, wrapNode, leavesWith, hp, Bool.false_eq_true, if_false]
      | none =>
        exact ⟨st', .node .none [], by simp only [leavesWith, hp, Bool.false_eq_true, if_false], hR, hI'⟩
      | int n => exact ⟨st', .leaf, rfl, hR, hI'⟩
      | str s => exact ⟨st', .leaf, rfl, hR, hI'⟩
      | «opaque» t => exact ⟨st', .leaf, rfl, hR, hI'⟩
      | arr c a => exact ⟨st', .leaf, rfl, hR, hI'⟩
theorem flatList_spec (I : CState → Prop) (R : CState → CState → Prop)
    (f : Obj → CState → CState × Verdict) (u : Bool) (p : Obj → Bool)
    (hf : LeafSpec I R (fun x st => if u then f x st else (st, Verdict.F)) p) :
    ∀ (xs : List Obj) (st : CState), Obj.noFaultList xs = true → I st →
      ∃ st' ds, flatList f u xs st = (st', .ok (leavesWithList p xs) ds) ∧ R st st' ∧ I st'
  | [], st, _, hI => ⟨st, [], by rw [flatList, leavesWithList], hf.refl st, hI⟩
  | x :: xs, st, hx, hI => by
    simp only [Obj.noFaultList, Bool.and_eq_true] at hx
    obtain ⟨st1, d, h1, hR1, hI1⟩ := flat_spec I R f u p hf x st hx.1 hI
    obtain ⟨st2, ds, h2, hR2, hI2⟩ := flatList_spec I R f u p hf xs st1 hx.2 hI1
    refine ⟨st2, d :: ds, ?_, hf.trans _ _ _ hR1 hR2, hI2⟩
    rw [flatList, h1]
    dsimp only
    rw [h2, leavesWithList]
end

/-! ### leaves of a fault-free value are fault-free -/

mutual
theorem noFault_leavesWith (p : Obj → Bool) : ∀ x : Obj, x.noFault = true →
    ∀ y ∈ leavesWith p x, y.noFault = true
  | .tuple xs, hx, y, hy => by
    rw [leavesWith] at hy
    split at hy
    · rw [List.mem_singleton] at hy; rw [hy]; exact hx
    · exact noFault_leavesWithList p xs (by simpa only [Obj.noFault] using hx) y hy
  | .list xs, hx, y, hy => by
    rw [leavesWith] at hy
    split at hy
    · rw [List.mem_singleton] at hy; rw [hy]; exact hx
    · exact noFault_leavesWithList p xs (by simpa only [Obj.noFault] using hx) y hy
  | .dict ks vs, hx, y, hy => by
    rw [leavesWith] at hy
    split at hy
    · rw [List.mem_singleton] at hy; rw [hy]; exact hx
    · exact noFault_leavesWithList p vs (by simpa only [Obj.noFault] using hx) y hy
  | .ntuple t xs, hx, y, hy => by
    rw [leavesWith] at hy
    split at hy
    · rw [List.mem_singleton] at hy; rw [hy]; exact hx
    · exact noFault_leavesWithList p xs (by simpa only [Obj.noFault] using hx) y hy
  | .custom t f xs, hx, y, hy => by
    rw [leavesWith] at hy
    split at hy
    · rw [List.mem_singleton] at hy; rw [hy]; exact hx
    · simp only [Obj.noFault, Bool.and_eq_true] at hx
      exact noFault_leavesWithList p xs hx.2 y hy
  | .none, hx, y, hy => by
    rw [leavesWith] at hy
    split at hy
    · rw [List.mem_singleton] at hy; rw [hy]; rfl
    · cases hy
  | .int n, _, y, hy => by rw [leavesWith, List.mem_singleton] at hy; rw [hy]; rfl
  | .str s, _, y, hy => by rw [leavesWith, List.mem_singleton] at hy; rw [hy]; rfl
  | .opaque t, _, y, hy => by rw [leavesWith, List.mem_singleton] at hy; rw [hy]; rfl
  | .arr c a, _, y, hy => by rw [leavesWith, List.mem_singleton] at hy; rw [hy]; rfl
theorem noFault_leavesWithList (p : Obj → Bool) : ∀ xs : List Obj, Obj.noFaultList xs = true →
    ∀ y ∈ leavesWithList p xs, y.noFault = true
  | [], _, y, hy => by rw [leavesWithList] at hy; cases hy
  | x :: xs, hx, y, hy => by
    simp only [Obj.noFaultList, Bool.and_eq_true] at hx
    rw [leavesWithList, List.mem_append] at hy
    rcases hy with hy | hy
    · exact noFault_leavesWith p x hx.1 y hy
    · exact noFault_leavesWithList p xs hx.2 y hy
end

/-! ### the leaf loop of a structure-less PyTree over a memo-keeping pure leaf check -/

/-- the state moved, the memo did not -/
def MemoEq (a b : CState) : Prop := b.memo = a.memo

theorem leafLoop_pure (sk : Skel) (f : Obj → CState → CState × Verdict) (q : Obj → Bool)
    (hf : LeafSpec (fun _ => True) MemoEq f q) : ∀ (xs : List Obj) (i : Nat) (st : CState),
    (∀ x ∈ xs, x.noFault = true) →
    (leafLoop sk f none xs i st).2 = (if xs.all q then Verdict.T else Verdict.F) ∧
      (leafLoop sk f none xs i st).1.memo = st.memo
  | [], i, st, _ => by rw [leafLoop]; exact ⟨rfl, rfl⟩
  | x :: xs, i, st, hxs => by
    rw [leafLoop]
    obtain ⟨hv, hm, _⟩ := hf.step x st (hxs x (List.mem_cons_self ..)) trivial
    generalize f x st = r at hv hm
    obtain ⟨st2, v⟩ := r
    dsimp only at hv
    have hm : st2.memo = st.memo := hm
    rw [List.all_cons]
    cases hq : q x with
    | false =>
      rw [hq] at hv
      simp only [Bool.false_eq_true, if_false] at hv
      subst hv
      exact ⟨rfl, hm⟩
    | true =>
      rw [hq, if_pos rfl] at hv
      subst hv
      dsimp only
      have ih := leafLoop_pure sk f q hf xs (i + 1)
        (if (sk.treepathGuarded && (none : Option String).isNone) = true then st2
          else { st2 with tp := none }) (fun y hy => hxs y (List.mem_cons_of_mem _ hy))
      have h3 : (if (sk.treepathGuarded && (none : Option String).isNone) = true then st2
          else { st2 with tp := none }).memo = st2.memo := by split <;> rfl
      rw [Bool.true_and]
      exact ⟨ih.1, ih.2.trans (h3.trans hm)⟩

/-! ### `_check` and `__instancecheck__` of a structure-less PyTree over a pure leaf check -/

theorem pytreeCore_pure (sk : Skel) (f : Obj → CState → CState × Verdict) (b : Bool)
    (p q : Obj → Bool)
    (hp : LeafSpec (fun _ => True) MemoEq (fun x st => if (!b) then f x st else (st, Verdict.F)) p)
    (hq : LeafSpec (fun _ => True) MemoEq (if b then fun _ s => (s, Verdict.T) else f) q)
    (x : Obj) (st : CState) (hx : x.noFault = true) :
    (pytreeCore sk f b none x st).2 = (if (leavesWith p x).all q then Verdict.T else Verdict.F) ∧
    (pytreeCore sk f b none x st).1.memo = st.memo := by
  obtain ⟨st1, d, h1, hR1, _⟩ := flat_spec _ _ f (!b) p hp x { st with flatten := true } hx trivial
  have hm1 : st1.memo = st.memo := hR1
  unfold pytreeCore
  rw [h1]
  dsimp only
  have hl := leafLoop_pure sk _ q hq (leavesWith p x) 0
    (⟨{ st1.memo with pytree := st1.memo.pytree }, st1.tp,
      if sk.flattenRestores = true then st.flatten else false, st1.noCtx⟩ : CState)
    (noFault_leavesWith p x hx)
  generalize leafLoop sk _ none (leavesWith p x) 0 _ = L at hl ⊢
  obtain ⟨st4, v⟩ := L
  obtain ⟨hv, hm4⟩ := hl
  dsimp only at hv hm4 ⊢
  have hm4 : st4.memo = st.memo := hm4.trans hm1
  have hc : (if (sk.treepathGuarded && (none : Option String).isNone) = true then st4
      else { st4 with tp := none }).memo = st.memo := by split <;> exact hm4
  cases hall : (leavesWith p x).all q with
  | true =>
    rw [hall, if_pos rfl] at hv
    subst hv
    exact ⟨rfl, hc⟩
  | false =>
    rw [hall] at hv
    simp only [Bool.false_eq_true, if_false] at hv
    subst hv
    exact ⟨rfl, hc⟩

theorem pytreeFinish_snd (sk : Skel) (st : CState) (r : CState × Verdict) :
    (pytreeFinish sk st r).2 = r.2 := by
  obtain ⟨st1, v⟩ := r
  cases v <;> try rfl
  simp only [pytreeFinish]
  split <;> rfl

/-- the wrapper around `_check`, for a structure-less PyTree over a pure leaf check -/
theorem pytreeInstancecheck_pure (sk : Skel) (f : Obj → CState → CState × Verdict) (b : Bool)
    (p q : Obj → Bool)
    (hp : LeafSpec (fun _ => True) MemoEq (fun x st => if (!b) then f x st else (st, Verdict.F)) p)
    (hq : LeafSpec (fun _ => True) MemoEq (if b then fun _ s => (s, Verdict.T) else f) q)
    (hpq : ∀ y, p y = true → q y = true)
    (x : Obj) (st : CState) (hx : x.noFault = true) :
    (pytreeInstancecheck sk f b none x st).2 =
      (if (leavesWith p x).all q then Verdict.T else Verdict.F) ∧
    (pytreeInstancecheck sk f b none x st).1.memo = st.memo := by
  by_cases hn : x = .none
  · subst hn
    refine ⟨?_, rfl⟩
    rw [leavesWith]
    cases hpn : p .none with
    | false => rfl
    | true => simp only [if_true, List.all_cons, hpq _ hpn, List.all_nil, Bool.and_self]; rfl
  · rw [pytreeInstancecheck_eq sk f b none x st hn]
    obtain ⟨hv, hm⟩ := pytreeCore_pure sk f b p q hp hq x
      (if st.noCtx then { st with memo := {} } else st) hx
    refine ⟨by rw [pytreeFinish_snd]; exact hv, ?_⟩
    generalize pytreeCore sk f b none x (if st.noCtx then { st with memo := {} } else st) = r
      at hv hm
    obtain ⟨st1, v⟩ := r
    dsimp only at hv hm
    cases hall : (leavesWith p x).all q with
    | false =>
      rw [hall] at hv
      simp only [Bool.false_eq_true, if_false] at hv
      subst hv
      rfl
    | true =>
      rw [hall, if_pos rfl] at hv
      subst hv
      simp only [pytreeFinish]
      cases hc : st.noCtx with
      | true => rfl
      | false =>
        rw [hc] at hm
        exact hm
/-! ### all discovered leaves match ↔ the declarative acceptance -/

theorem TreeAccepts.mono {a b : Obj → Prop} (h : ∀ y, a y → b y) {x : Obj}
    (hx : TreeAccepts a x) : TreeAccepts b x := by
  induction hx with
  | leaf x hx => exact .leaf x (h x hx)
  | node x cs hc _ ih => exact .node x cs hc ih

theorem TreeAccepts.idem {a : Obj → Prop} {x : Obj} (hx : TreeAccepts (TreeAccepts a) x) :
    TreeAccepts a x := by
  induction hx with
  | leaf x hx => exact hx
  | node x cs hc _ ih => exact .node x cs hc ih

theorem all_leavesWithList (p : Obj → Bool) : ∀ cs : List Obj,
    (∀ c ∈ cs, (leavesWith p c).all p = true) → (leavesWithList p cs).all p = true
  | [], _ => by rw [leavesWithList]; rfl
  | c :: cs, h => by
    rw [leavesWithList, List.all_append, h c (List.mem_cons_self ..),
      all_leavesWithList p cs (fun c' hc' => h c' (List.mem_cons_of_mem _ hc'))]
    rfl

theorem all_of_treeAccepts (p : Obj → Bool) (x : Obj)
    (h : TreeAccepts (fun y => p y = true) x) : (leavesWith p x).all p = true := by
  induction h with
  | leaf x hx => rw [leavesWith_of_true p x hx, List.all_cons, hx]; rfl
  | node x cs hc _ ih =>
    cases hp : p x with
    | true => rw [leavesWith_of_true p x hp, List.all_cons, hp]; rfl
    | false => rw [leavesWith_of_false p x cs hp hc]; exact all_leavesWithList p cs ih

mutual
theorem treeAccepts_of_all (p : Obj → Bool) : ∀ x : Obj, (leavesWith p x).all p = true →
    TreeAccepts (fun y => p y = true) x
  | .tuple xs, h => by
    cases hp : p (.tuple xs) with
    | true => exact .leaf _ hp
    | false =>
      rw [leavesWith_of_false p _ xs hp rfl] at h
      exact .node _ xs rfl (treeAccepts_of_allList p xs h)
  | .list xs, h => by
    cases hp : p (.list xs) with
    | true => exact .leaf _ hp
    | false =>
      rw [leavesWith_of_false p _ xs hp rfl] at h
      exact .node _ xs rfl (treeAccepts_of_allList p xs h)
  | .dict ks vs, h => by
    cases hp : p (.dict ks vs) with
    | true => exact .leaf _ hp
    | false =>
      rw [leavesWith_of_false p _ vs hp rfl] at h
      exact .node _ vs rfl (treeAccepts_of_allList p vs h)
  | .ntuple t xs, h => by
    cases hp : p (.ntuple t xs) with
    | true => exact .leaf _ hp
    | false =>
      rw [leavesWith_of_false p _ xs hp rfl] at h
      exact .node _ xs rfl (treeAccepts_of_allList p xs h)
  | .custom t f xs, h => by
    cases hp : p (.custom t f xs) with
    | true => exact .leaf _ hp
    | false =>
      rw [leavesWith_of_false p _ xs hp rfl] at h
      exact .node _ xs rfl (treeAccepts_of_allList p xs h)
  | .none, _ => .node _ [] rfl (fun _ hc => by cases hc)
  | .int n, h => by
    rw [leavesWith, List.all_cons, List.all_nil, Bool.and_true] at h; exact .leaf _ h
  | .str s, h => by
    rw [leavesWith, List.all_cons, List.all_nil, Bool.and_true] at h; exact .leaf _ h
  | .opaque t, h => by
    rw [leavesWith, List.all_cons, List.all_nil, Bool.and_true] at h; exact .leaf _ h
  | .arr c a, h => by
    rw [leavesWith, List.all_cons, List.all_nil, Bool.and_true] at h; exact .leaf _ h
theorem treeAccepts_of_allList (p : Obj → Bool) : ∀ xs : List Obj,
    (leavesWithList p xs).all p = true → ∀ c ∈ xs, TreeAccepts (fun y => p y = true) c
  | [], _, c, hc => by cases hc
  | x :: xs, h, c, hc => by
    rw [leavesWithList, List.all_append, Bool.and_eq_true] at h
    rcases List.mem_cons.mp hc with hc | hc
    · rw [hc]; exact treeAccepts_of_all p x h.1
    · exact treeAccepts_of_allList p xs h.2 c hc
end

theorem all_leaves_iff (p : Obj → Bool) (x : Obj) :
    (leavesWith p x).all p = true ↔ TreeAccepts (fun y => p y = true) x :=
  ⟨treeAccepts_of_all p x, all_of_treeAccepts p x⟩

/-! ### `PyTree[L]` for memo-free `L` -/

theorem isAny_iff (l : LType) :
    (match l with | .any => true | _ => false) = true ↔ l = .any := by
  cases l <;> simp

theorem checkL_pytree_eq (sk : Skel) (l : LType) (s : Option String) (x : Obj) (st : CState) :
    checkL sk (.pytree l s) x st =
      pytreeInstancecheck sk (checkL sk l) (match l with | .any => true | _ => false) s x st := by
  conv => lhs; unfold checkL
  rfl

theorem leafSpec_memoEq_of (g : Obj → CState → CState × Verdict) (p : Obj → Bool)
    (h : ∀ x st, x.noFault = true →
      (g x st).2 = (if p x then Verdict.T else Verdict.F) ∧ (g x st).1.memo = st.memo) :
    LeafSpec (fun _ => True) MemoEq g p :=
  ⟨fun _ => rfl, fun _ _ _ h1 h2 => Eq.trans h2 h1,
    fun x st hx _ => ⟨(h x st hx).1, (h x st hx).2, trivial⟩⟩

/-- a structure-less PyTree over a pure leaf check that is not `Any` -/
theorem pytree_pure_false (sk : Skel) (f : Obj → CState → CState × Verdict) (p : Obj → Bool)
    (hf : LeafSpec (fun _ => True) MemoEq f p) (x : Obj) (st : CState) (hx : x.noFault = true) :
    (pytreeInstancecheck sk f false none x st).2 =
      (if (leavesWith p x).all p then Verdict.T else Verdict.F) ∧
    (pytreeInstancecheck sk f false none x st).1.memo = st.memo :=
  pytreeInstancecheck_pure sk f false p p
    ⟨hf.refl, hf.trans, fun y s hy hI => hf.step y s hy hI⟩
    ⟨hf.refl, hf.trans, fun y s hy hI => hf.step y s hy hI⟩ (fun _ h => h) x st hx

theorem verdict_ite_T (c : Bool) : (if c = true then Verdict.T else Verdict.F) = Verdict.T ↔ c = true := by
  cases c <;> simp

theorem verdict_ite_TF (c : Bool) : (if c = true then Verdict.T else Verdict.F) = Verdict.T ∨
    (if c = true then Verdict.T else Verdict.F) = Verdict.F := by
  cases c <;> simp

theorem pytree_memofree_iff (sk : Skel) (l : LType) (h : MemoFree l) (x : Obj)
    (hx : x.noFault = true) (st : CState) :
    ((checkL sk (.pytree l none) x st).2 = .T ↔ TreeAccepts (fun y => accL l y = true) x) ∧
    ((checkL sk (.pytree l none) x st).2 = .T ∨ (checkL sk (.pytree l none) x st).2 = .F) ∧
    (checkL sk (.pytree l none) x st).1.memo = st.memo := by
  rw [checkL_pytree_eq]
  have hspec : LeafSpec (fun _ => True) MemoEq (checkL sk l) (accL l) :=
    leafSpec_memoEq_of _ _ (fun y s _ => by rw [checkL_memofree sk l h y s]; exact ⟨rfl, rfl⟩)
  cases hb : (match l with | .any => true | _ => false) with
  | true =>
    have hl := (isAny_iff l).mp hb
    subst hl
    obtain ⟨hv, hm⟩ := pytreeInstancecheck_pure sk (checkL sk .any) true (fun _ => false)
      (fun _ => true)
      ⟨fun _ => rfl, fun _ _ _ h1 h2 => Eq.trans h2 h1, fun y s _ _ => ⟨rfl, rfl, trivial⟩⟩
      ⟨fun _ => rfl, fun _ _ _ h1 h2 => Eq.trans h2 h1, fun y s _ _ => ⟨rfl, rfl, trivial⟩⟩
      (fun _ hy => by cases hy) x st hx
    have hall : (leavesWith (fun _ => false) x).all (fun _ => true) = true :=
      List.all_eq_true.mpr (fun _ _ => rfl)
    rw [hall, if_pos rfl] at hv
    exact ⟨⟨fun _ => .leaf x (by simp only [accL]), fun _ => hv⟩, Or.inl hv, hm⟩
  | false =>
    obtain ⟨hv, hm⟩ := pytree_pure_false sk (checkL sk l) (accL l) hspec x st hx
    refine ⟨?_, ?_, hm⟩
    · rw [hv, verdict_ite_T, all_leaves_iff]
    · rw [hv]; exact verdict_ite_TF _

theorem pytree_nested_same (sk : Skel) (l : LType) (h : MemoFree l) (x : Obj)
    (hx : x.noFault = true) (st : CState) :
    (checkL sk (.pytree (.pytree l none) none) x st).2 = (checkL sk (.pytree l none) x st).2 := by
  classical
  let q : Obj → Bool := fun y => decide (TreeAccepts (fun z => accL l z = true) y)
  have hqT : ∀ y, q y = true ↔ TreeAccepts (fun z => accL l z = true) y := fun y => decide_eq_true_iff
  have hq : LeafSpec (fun _ => True) MemoEq (checkL sk (.pytree l none)) q :=
    leafSpec_memoEq_of _ _ (fun y s hy => by
      obtain ⟨h1, h2, h3⟩ := pytree_memofree_iff sk l h y hy s
      refine ⟨?_, h3⟩
      cases hqy : q y with
      | true => rw [if_pos rfl]; exact h1.mpr ((hqT y).mp hqy)
      | false =>
        rw [if_neg (by simp)]
        rcases h2 with h2 | h2
        · rw [(hqT y).mpr (h1.mp h2)] at hqy; cases hqy
        · exact h2)
  obtain ⟨h1, h2, _⟩ := pytree_memofree_iff sk l h x hx st
  rw [checkL_pytree_eq sk (.pytree l none)]
  dsimp only
  obtain ⟨hv, _⟩ := pytree_pure_false sk _ q hq x st hx
  rw [hv]
  have hiff : (leavesWith q x).all q = true ↔ TreeAccepts (fun z => accL l z = true) x := by
    rw [all_leaves_iff]
    constructor
    · intro ht
      exact TreeAccepts.idem (TreeAccepts.mono (fun y hy => (hqT y).mp hy) ht)
    · intro ht
      exact .leaf x ((hqT x).mpr ht)
  cases hall : (leavesWith q x).all q with
  | true => rw [if_pos rfl]; exact (h1.mpr (hiff.mp hall)).symm
  | false =>
    rw [if_neg (by simp)]
    rcases h2 with h2 | h2
    · rw [hiff.mpr (h1.mp h2)] at hall; cases hall
    · exact h2.symm

theorem pytree_bare (sk : Skel) (x : Obj) (st : CState) (l : LType) (s : Option String) :
    checkL sk .barePytree x st = (st, .T) ∧ checkL sk (.pytree l s) .none st = (st, .T) := by
  constructor
  · unfold checkL; rfl
  · rw [checkL_pytree_eq]; rfl

theorem pytree_reject_memo (sk : Skel) (l : LType) (s : Option String) (x : Obj) (st : CState)
    (h : (checkL sk (.pytree l s) x st).2 = .F) : (checkL sk (.pytree l s) x st).1.memo = st.memo := by
  rw [checkL_pytree_eq] at h ⊢
  apply pytree_fail_restores
  rw [h]
  trivial

/-! ### array leaves -/

theorem toArr_isInst (cls : String) (x : Obj) : (x.toArr cls).isInst = Obj.isArrOf cls x := by
  cases x <;> rfl

/-- in flatten mode the array check is the class test and touches nothing -/
theorem checkL_arr_flatten (sk : Skel) (cls : String) (a : Ann) (ha : a.transparent = false)
    (x : Obj) (st : CState) (hf : st.flatten = true) (hn : st.noCtx = false) :
    checkL sk (.arr cls a) x st = (st, if Obj.isArrOf cls x then Verdict.T else Verdict.F) := by
  obtain ⟨m, tp, fl, nc⟩ := st
  dsimp only at hf hn
  subst hf hn
  unfold checkL
  simp only [Bool.false_eq_true, if_false]
  unfold instancecheck
  rw [toArr_isInst]
  cases Obj.isArrOf cls x <;> simp [ha]

/-- outside flatten mode, in an open context, the array check is `instancecheck` on the memo -/
theorem checkL_arr_check (sk : Skel) (cls : String) (a : Ann) (x : Obj) (m : Memo) (tp : TreePath)
    (fl : Bool) :
    checkL sk (.arr cls a) x ⟨m, tp, fl, false⟩ =
      (⟨(instancecheck sk.arrayCatch fl tp a (x.toArr cls) m).2, tp, fl, false⟩,
        (instancecheck sk.arrayCatch fl tp a (x.toArr cls) m).1) := by
  unfold checkL
  simp only [Bool.false_eq_true, if_false]

theorem leafLoop_arr (sk : Skel) (cls : String) (a : Ann) : ∀ (ls : List Obj) (i : Nat) (m : Memo),
    (leafLoop sk (checkL sk (.arr cls a)) none ls i ⟨m, none, false, false⟩).2 =
        (checkSeq sk.arrayCatch none (ls.map fun o => (a, o.toArr cls)) m).1 ∧
      (leafLoop sk (checkL sk (.arr cls a)) none ls i ⟨m, none, false, false⟩).1.memo =
        (checkSeq sk.arrayCatch none (ls.map fun o => (a, o.toArr cls)) m).2
  | [], i, m => by rw [leafLoop]; exact ⟨rfl, rfl⟩
  | y :: ys, i, m => by
    rw [leafLoop]
    dsimp only
    rw [checkL_arr_check sk cls a y m none false, List.map_cons]
    cases hi : instancecheck sk.arrayCatch false none a (y.toArr cls) m with
    | mk v m' =>
      cases v with
      | T =>
        rw [checkSeq_cons_T _ _ _ _ _ _ _ hi]
        dsimp only
        rw [ite_self]
        exact leafLoop_arr sk cls a ys (i + 1) m'
      | F =>
        rw [checkSeq_cons_stop _ _ _ _ _ _ (by rw [hi]; simp), hi]
        exact ⟨rfl, rfl⟩
      | ANN =>
        rw [checkSeq_cons_stop _ _ _ _ _ _ (by rw [hi]; simp), hi]
        exact ⟨rfl, rfl⟩
      | EXC e =>
        rw [checkSeq_cons_stop _ _ _ _ _ _ (by rw [hi]; simp), hi]
        exact ⟨rfl, rfl⟩

theorem pytreeCore_arr (sk : Skel) (cls : String) (a : Ann) (ha : a.transparent = false) (x : Obj)
    (hx : x.noFault = true) (m : Memo) :
    ∃ st4 : CState,
      pytreeCore sk (checkL sk (.arr cls a)) false none x ⟨m, none, false, false⟩ =
        (st4, (checkSeq sk.arrayCatch none
          ((leavesWith (Obj.isArrOf cls) x).map fun o => (a, o.toArr cls)) m).1) ∧
      st4.memo = (checkSeq sk.arrayCatch none
          ((leavesWith (Obj.isArrOf cls) x).map fun o => (a, o.toArr cls)) m).2 := by
  have hspec : LeafSpec (fun s => s.flatten = true ∧ s.noCtx = false) Eq
      (fun y s => if (!false) = true then checkL sk (.arr cls a) y s else (s, Verdict.F))
      (Obj.isArrOf cls) :=
    ⟨fun _ => rfl, fun _ _ _ h1 h2 => h1.trans h2, fun y s _ hI => by
      simp only [Bool.not_false, if_true]
      rw [checkL_arr_flatten sk cls a ha y s hI.1 hI.2]
      exact ⟨rfl, rfl, hI⟩⟩
  obtain ⟨st1, d, hfl, hR, _⟩ := flat_spec _ _ _ (!false) _ hspec x ⟨m, none, true, false⟩ hx
    ⟨rfl, rfl⟩
  subst hR
  unfold pytreeCore
  dsimp only
  rw [hfl]
  simp only [Bool.false_eq_true, if_false]
  rw [ite_self]
  generalize hL : leafLoop sk _ none _ 0 _ = L
  have hl : L.2 = (checkSeq sk.arrayCatch none
          ((leavesWith (Obj.isArrOf cls) x).map fun o => (a, o.toArr cls)) m).1 ∧
      L.1.memo = (checkSeq sk.arrayCatch none
          ((leavesWith (Obj.isArrOf cls) x).map fun o => (a, o.toArr cls)) m).2 := by
    rw [← hL]; exact leafLoop_arr sk cls a _ 0 m
  obtain ⟨st4, v⟩ := L
  obtain ⟨hv, hm⟩ := hl
  dsimp only at hv hm ⊢
  rw [← hv]
  have hc : (if (sk.treepathGuarded && (none : Option String).isNone) = true then st4
      else { st4 with tp := none }).memo = st4.memo := by split <;> rfl
  cases v with
  | T => exact ⟨_, rfl, hc.trans hm⟩
  | F => exact ⟨_, rfl, hc.trans hm⟩
  | ANN =>
    refine ⟨_, rfl, ?_⟩
    split
    · exact hc.trans hm
    · exact hm
  | EXC e =>
    refine ⟨_, rfl, ?_⟩
    split
    · exact hc.trans hm
    · exact hm

theorem pytree_arrays_seq (sk : Skel) (cls : String) (a : Ann) (ha : a.transparent = false)
    (x : Obj) (hx : x.noFault = true) (hn : x ≠ .none) (st : CState)
    (hst : st.flatten = false ∧ st.tp = none ∧ st.noCtx = false) :
    let leaves := (leavesWith (Obj.isArrOf cls) x).map fun o => (a, o.toArr cls)
    (checkL sk (.pytree (.arr cls a) none) x st).2 = (checkSeq sk.arrayCatch none leaves st.memo).1 ∧
    ((checkSeq sk.arrayCatch none leaves st.memo).1 = .T →
      (checkL sk (.pytree (.arr cls a) none) x st).1.memo =
        (checkSeq sk.arrayCatch none leaves st.memo).2) := by
  intro leaves
  obtain ⟨m, tp, fl, nc⟩ := st
  obtain ⟨h1, h2, h3⟩ := hst
  dsimp only at h1 h2 h3
  subst h1 h2 h3
  rw [checkL_pytree_eq]
  dsimp only
  rw [pytreeInstancecheck_eq _ _ _ _ _ _ hn]
  simp only [Bool.false_eq_true, if_false]
  obtain ⟨st4, hcore, hm⟩ := pytreeCore_arr sk cls a ha x hx m
  rw [hcore]
  refine ⟨pytreeFinish_snd _ _ _, fun hT => ?_⟩
  change (checkSeq sk.arrayCatch none leaves m).1 = .T at hT
  change (pytreeFinish sk _ (st4, (checkSeq sk.arrayCatch none leaves m).1)).1.memo = _
  rw [hT]
  exact hm

end JV
