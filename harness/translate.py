"""(T1, translation) The branch structure of `_check_dims` and of the multi-axis part of `_check_shape` is
translated from the current Python source into the small language of lean/JaxVerif/Model/SourceDsl.lean
(`Generated/CheckCode.lean`). Properties/C01.lean then proves, on every run, that the translated code is
the hand-written model (`checkDim`, `vstep`). Anything the translator does not recognise becomes `.unknown`,
whose interpretation is a crash, so the proof fails rather than silently passing."""
from __future__ import annotations

import ast
import os

from common import GEN, REPO, write_if_changed


def _src(node):
    try:
        return ast.unparse(node)
    except Exception:  # noqa: BLE001
        return "?"


NORMALISE = False   # set while the multi-axis branch (after inlining helper functions) is translated


def _nsrc(node):
    """source text with `obj.shape[i:j]` / `variadic_dim.broadcastable` written as the locals they are usually bound to
    (after a helper has been inlined its parameters appear as the argument expressions)"""
    t = _src(node)
    if NORMALISE:
        t = t.replace("obj.shape[i:j]", "new_shape").replace("variadic_dim.broadcastable", "broadcastable")
    return t


def _strip(stmts):
    """drop asserts and docstrings"""
    return [s for s in stmts if not isinstance(s, ast.Assert) and not (isinstance(s, ast.Expr) and isinstance(s.value, ast.Constant))]


def _is_message_return(st):
    """`return <non-empty message>`: an f-string / string / name that is not the empty string"""
    if not isinstance(st, ast.Return) or st.value is None:
        return False
    v = st.value
    if isinstance(v, ast.Constant):
        return isinstance(v.value, str) and v.value != ""
    return isinstance(v, (ast.JoinedStr, ast.Name, ast.BinOp, ast.Call))


def _is_accept_return(st):
    return isinstance(st, ast.Return) and isinstance(st.value, ast.Constant) and st.value.value == ""


# ----------------------------------------------------------------------------- _check_dims

GUARDS = {
    "cls_dim is _anonymous_dim": "isAnon",
    "cls_dim.broadcastable and obj_size == 1": "bcastOne",
    "obj_size == 1 and cls_dim.broadcastable": "bcastOne",
    "type(cls_dim) is _FixedDim": "isFixed",
    "isinstance(cls_dim, _FixedDim)": "isFixed",
    "type(cls_dim) is _SymbolicDim": "isSym",
    "isinstance(cls_dim, _SymbolicDim)": "isSym",
    "type(cls_dim) is _NamedDim": "isNamed",
    "isinstance(cls_dim, _NamedDim)": "isNamed",
}


NAME_HELPERS = set()  # module-level functions `f(dim)` whose body is the tree-path / plain name choice


def _find_name_helpers(tree):
    """`def f(dim): if dim.treepath: return get_treepath_memo() + dim.name else: return dim.name` (the `else` optional)"""
    NAME_HELPERS.clear()
    for fn in tree.body:
        if not isinstance(fn, ast.FunctionDef) or len(fn.args.args) != 1 or fn.args.vararg or fn.args.kwarg or fn.args.kwonlyargs or fn.decorator_list:
            continue
        a = fn.args.args[0].arg
        body = _strip(fn.body)
        if not body or not isinstance(body[0], ast.If) or _src(body[0].test) != f"{a}.treepath":
            continue
        i = body[0]
        tail = i.orelse if i.orelse else body[1:]
        if (len(body) == (1 if i.orelse else 2) and len(i.body) == 1 and _src(i.body[0]) == f"return get_treepath_memo() + {a}.name"
                and len(tail) == 1 and _src(tail[0]) == f"return {a}.name"):
            NAME_HELPERS.add(fn.name)


def _is_name_choice(stmts, var):
    """the statements that set `name` for the axis held in `var`: the inline if/else, or a call of a helper"""
    if len(stmts) != 1:
        return False
    st = stmts[0]
    if isinstance(st, ast.If):
        return (_src(st.test) == f"{var}.treepath" and len(st.body) == 1 and len(st.orelse) == 1
                and _src(st.body[0]) == f"name = get_treepath_memo() + {var}.name" and _src(st.orelse[0]) == f"name = {var}.name")
    if isinstance(st, ast.Assign) and _src(st.targets[0]) == "name" and isinstance(st.value, ast.Call) and isinstance(st.value.func, ast.Name):
        return st.value.func.id in NAME_HELPERS and [_src(a) for a in st.value.args] == [var] and not st.value.keywords
    if isinstance(st, ast.Assign) and _src(st.targets[0]) == "name" and isinstance(st.value, ast.IfExp):
        v = st.value
        return _src(v.test) == f"{var}.treepath" and _src(v.body) == f"get_treepath_memo() + {var}.name" and _src(v.orelse) == f"{var}.name"
    return False


def _is_cmp_bound(stmts):
    """`[cls_size = single_memo[name];] if cls_size != obj_size: return <msg>`"""
    stmts = _strip(stmts)
    if len(stmts) == 2 and _src(stmts[0]) == "cls_size = single_memo[name]":
        stmts = stmts[1:]
        lhs = ("cls_size",)
    elif len(stmts) == 1:
        lhs = ("single_memo[name]",)
    else:
        return False
    i = stmts[0]
    return (isinstance(i, ast.If) and _src(i.test) in [f"{x} != obj_size" for x in lhs] + [f"obj_size != {x}" for x in lhs]
            and not i.orelse and len(i.body) == 1 and _is_message_return(i.body[0]))


def _is_bind_or_cmp(st):
    """lookup of `name` in `single_memo`: bind when absent, compare when present — as try/except KeyError/else, or
    as a membership test in either polarity"""
    if isinstance(st, ast.Try):
        t = st
        return (len(t.body) == 1 and _src(t.body[0]) == "cls_size = single_memo[name]"
                and len(t.handlers) == 1 and _src(t.handlers[0].type) == "KeyError" and len(t.handlers[0].body) == 1
                and _src(t.handlers[0].body[0]) == "single_memo[name] = obj_size"
                and len(t.orelse) == 1 and isinstance(t.orelse[0], ast.If) and _src(t.orelse[0].test) in ("cls_size != obj_size", "obj_size != cls_size")
                and not t.orelse[0].orelse and len(t.orelse[0].body) == 1 and _is_message_return(t.orelse[0].body[0]) and not t.finalbody)
    if isinstance(st, ast.If) and st.orelse:
        test = _src(st.test)
        if test == "name in single_memo":
            present, absent = st.body, st.orelse
        elif test in ("name not in single_memo", "not name in single_memo"):
            present, absent = st.orelse, st.body
        else:
            return False
        absent = _strip(absent)
        return len(absent) == 1 and _src(absent[0]) == "single_memo[name] = obj_size" and _is_cmp_bound(present)
    return False


def _action(stmts):
    stmts = _strip(stmts)
    if len(stmts) == 1 and isinstance(stmts[0], ast.Pass):
        return "accept"
    # fixed: if cls_dim.size != obj_size: return msg
    if len(stmts) == 1 and isinstance(stmts[0], ast.If) and _src(stmts[0].test) in ("cls_dim.size != obj_size", "obj_size != cls_dim.size") \
            and not stmts[0].orelse and len(stmts[0].body) == 1 and _is_message_return(stmts[0].body[0]):
        return "cmpFixed"
    # symbolic: try: elem = eval(f"f'{cls_dim.elem}'", arg_memo.copy()); eval_size = eval(elem, single_memo.copy())
    #           except NameError: raise AnnotationError ; if eval_size != obj_size: return msg
    if len(stmts) == 2 and isinstance(stmts[0], ast.Try) and isinstance(stmts[1], ast.If):
        t, i = stmts
        body = _strip(t.body)
        ok = (len(body) == 2 and all(isinstance(b, ast.Assign) for b in body)
              and _src(body[0].targets[0]) == "elem" and _src(body[0].value).replace('"', "'") in ("eval(f'f'{cls_dim.elem}'', arg_memo.copy())", "eval(f\"f'{cls_dim.elem}'\", arg_memo.copy())".replace('"', "'"))
              and _src(body[1].targets[0]) == "eval_size" and _src(body[1].value) == "eval(elem, single_memo.copy())"
              and len(t.handlers) == 1 and _src(t.handlers[0].type) == "NameError"
              and any(isinstance(r, ast.Raise) and "AnnotationError" in _src(r.exc) for r in t.handlers[0].body)
              and not t.orelse and not t.finalbody
              and _src(i.test) in ("eval_size != obj_size", "obj_size != eval_size") and not i.orelse and len(i.body) == 1 and _is_message_return(i.body[0]))
        if ok:
            return "evalCmp"
    # named: if cls_dim.treepath: name = get_treepath_memo() + cls_dim.name else: name = cls_dim.name
    #        try: cls_size = single_memo[name] except KeyError: single_memo[name] = obj_size else: if cls_size != obj_size: return msg
    if len(stmts) == 2 and _is_name_choice(stmts[:1], "cls_dim") and _is_bind_or_cmp(stmts[1]):
        return "bindOrCmp"
    return "unknown"


def translate_check_dims(tree):
    fn = next((n for n in tree.body if isinstance(n, ast.FunctionDef) and n.name == "_check_dims"), None)
    if fn is None:
        return [("unknown", "unknown")], "no _check_dims"
    fn = _inlined(fn, tree)
    loops = [s for s in _strip(fn.body) if isinstance(s, ast.For)]
    rest = [s for s in _strip(fn.body) if not isinstance(s, ast.For)]
    if len(loops) != 1 or _src(loops[0].target) != "(cls_dim, obj_size)" or _src(loops[0].iter) != "zip(cls_dims, obj_shape)" \
            or not (len(rest) == 1 and _is_accept_return(rest[0])) or loops[0].orelse:
        return [("unknown", "unknown")], "loop header / trailing return not recognised"
    body = _strip(loops[0].body)
    chain = []
    # leading guards `if <test>: continue` are branches of the chain that do nothing
    while len(body) > 1 and isinstance(body[0], ast.If) and not body[0].orelse and [type(x) for x in _strip(body[0].body)] == [ast.Continue]:
        chain.append((GUARDS.get(_src(body[0].test), "unknown"), "accept"))
        body = body[1:]
    if len(body) != 1 or not isinstance(body[0], ast.If):
        return [("unknown", "unknown")], "loop body is not one if-chain"
    node = body[0]
    while True:
        chain.append((GUARDS.get(_src(node.test), "unknown"), _action(node.body)))
        if len(node.orelse) == 1 and isinstance(node.orelse[0], ast.If):
            node = node.orelse[0]
        else:
            if node.orelse:
                chain.append(("otherwise", _action(node.orelse)))
            break
    return chain, ""


# ----------------------------------------------------------------------------- multi-axis part of _check_shape

CONDS = {
    "prev_broadcastable": "prevB",
    "broadcastable": "curB",
    "not broadcastable and broadcast_shape != new_shape": "notCurAndBsNeNew",
    "broadcast_shape != new_shape": "bsNeNew",
    "broadcast_shape != prev_shape": "bsNePrev",
    "not prev_broadcastable and broadcast_shape != prev_shape": "notPrevAndBsNePrev",
    "new_shape != prev_shape": "newNePrev",
    "not (broadcastable or prev_broadcastable)": "neitherB",
    "not (prev_broadcastable or broadcastable)": "neitherB",
    "not broadcastable and (not prev_broadcastable)": "neitherB",
    "not prev_broadcastable and (not broadcastable)": "neitherB",
}


def _vstmts(stmts):
    out = []
    for st in _strip(stmts):
        if isinstance(st, ast.Assign) and _nsrc(st) in ("new_shape = obj.shape[i:j]", "new_shape = new_shape", "broadcastable = broadcastable"):
            continue
        if isinstance(st, ast.If):
            c = CONDS.get(_nsrc(st.test), "unknown")
            if not st.orelse and len(st.body) == 1 and _is_message_return(st.body[0]):
                out.append(f".failIf .{c}")
            else:
                out.append(f".ite .{c} [{', '.join(_vstmts(st.body))}] [{', '.join(_vstmts(st.orelse))}]")
        elif isinstance(st, ast.Try):
            body = _strip(st.body)
            ok = (len(body) == 1 and isinstance(body[0], ast.Assign) and _src(body[0].targets[0]) == "broadcast_shape"
                  and _nsrc(body[0].value) in ("np.broadcast_shapes(new_shape, prev_shape)", "np.broadcast_shapes(prev_shape, new_shape)")
                  and len(st.handlers) == 1 and _src(st.handlers[0].type) == "ValueError" and len(st.handlers[0].body) == 1
                  and _is_message_return(st.handlers[0].body[0]) and not st.orelse and not st.finalbody)
            out.append(".bcast" if ok else ".unknown")
        elif isinstance(st, ast.Assign) and _nsrc(st) == "variadic_memo[name] = (broadcastable, broadcast_shape)":
            out.append(".storeCurBs")
        elif _is_accept_return(st):
            out.append(".accept")
        else:
            out.append(".unknown")
    return out


def translate_variadic(tree):
    cls = next((n for n in tree.body if isinstance(n, ast.ClassDef) and n.name == "_MetaAbstractArray"), None)
    fn = next((n for n in (cls.body if cls else []) if isinstance(n, ast.FunctionDef) and n.name == "_check_shape"), None)
    if fn is None:
        return [".unknown"], False, "no _check_shape"
    global NORMALISE
    NORMALISE = True
    try:
        return _translate_variadic(_inlined(fn, tree, cls, exclude=("_check_dims",)))
    finally:
        NORMALISE = False


def _inlined(fn, tree, cls=None, exclude=()):
    from inline import inline_helpers

    return inline_helpers(fn, tree, cls, exclude=exclude)


def _translate_variadic(fn):
    unpack = "prev_broadcastable, prev_shape = variadic_memo[name]"
    store_first = ["variadic_memo[name] = (broadcastable, new_shape)", "return ''"]
    tries = [n for n in ast.walk(fn) if isinstance(n, ast.Try) and len(n.body) == 1 and _src(n.body[0]).replace("(", "").replace(")", "") == unpack]
    if len(tries) == 1:
        t = tries[0]
        first = (len(t.handlers) == 1 and _src(t.handlers[0].type) == "KeyError"
                 and [_nsrc(s) for s in _strip(t.handlers[0].body)] == store_first)
        code = _vstmts(t.orelse)
        if not t.orelse:
            # the bound case follows the try in the enclosing block (the handler returned)
            for blk in ast.walk(fn):
                for seq in [getattr(blk, f, None) for f in ("body", "orelse")]:
                    if isinstance(seq, list) and t in seq:
                        code = _vstmts(seq[seq.index(t) + 1:])
        return code, bool(first), ""
    # the same lookup as a membership test: `if name not in variadic_memo: <store>; return ""` followed by the
    # unpacking and the statements for the bound case (or `if name in variadic_memo: ... else: <store>; return ""`)
    for blk in [n for n in ast.walk(fn) if isinstance(n, (ast.If, ast.FunctionDef))]:
        for seq in ([blk.body, blk.orelse] if isinstance(blk, ast.If) else [blk.body]):
            seq = _strip(seq)
            for k, st in enumerate(seq):
                if not isinstance(st, ast.If):
                    continue
                test = _src(st.test)
                if test in ("name not in variadic_memo", "not name in variadic_memo") and not st.orelse:
                    first = [_nsrc(s) for s in _strip(st.body)] == store_first
                    rest = seq[k + 1:]
                elif test in ("name not in variadic_memo", "not name in variadic_memo") and st.orelse:
                    first = [_nsrc(s) for s in _strip(st.body)] == store_first
                    rest = _strip(st.orelse)
                    if seq[k + 1:]:
                        return [".unknown"], False, "statements after the membership test"
                elif test == "name in variadic_memo" and st.orelse:
                    first = [_nsrc(s) for s in _strip(st.orelse)] == store_first
                    rest = _strip(st.body)
                    if seq[k + 1:]:
                        return [".unknown"], False, "statements after the membership test"
                else:
                    continue
                if not rest or _src(rest[0]).replace("(", "").replace(")", "") != unpack:
                    return [".unknown"], False, "the bound case does not start by unpacking the stored value"
                return _vstmts(rest[1:]), bool(first), ""
    return [".unknown"], False, "the lookup of the bound multi-axis name was not found"


# ----------------------------------------------------------------------------- __instancecheck_str__


def translate_stages(tree):
    cls = next((n for n in tree.body if isinstance(n, ast.ClassDef) and n.name == "_MetaAbstractArray"), None)
    fn = next((n for n in (cls.body if cls else []) if isinstance(n, ast.FunctionDef) and n.name == "__instancecheck_str__"), None)
    if fn is None:
        return ["unknown"]
    out = []
    helpers = {n.name: n for n in tree.body if isinstance(n, ast.FunctionDef)}
    body = _strip(fn.body)
    i = 0
    while i < len(body):
        st = body[i]
        src = _src(st)
        if isinstance(st, ast.If) and _src(st.test) == "cls._skip_instancecheck" and len(st.body) == 1 and _is_accept_return(st.body[0]) and not st.orelse:
            out.append("transparent")
        elif isinstance(st, ast.If) and _src(st.test) == "cls.array_type is Any":
            ok = (len(st.body) == 1 and isinstance(st.body[0], ast.If) and _src(st.body[0].test) in ("not (hasattr(obj, 'shape') and hasattr(obj, 'dtype'))",)
                  and len(st.body[0].body) == 1 and _is_message_return(st.body[0].body[0]) and not st.body[0].orelse
                  and len(st.orelse) == 1 and isinstance(st.orelse[0], ast.If) and _src(st.orelse[0].test) == "not isinstance(obj, cls.array_type)"
                  and len(st.orelse[0].body) == 1 and _is_message_return(st.orelse[0].body[0]) and not st.orelse[0].orelse)
            out.append("typeTest" if ok else "unknown")
        elif isinstance(st, ast.If) and _src(st.test) == "get_treeflatten_memo()" and len(st.body) == 1 and _is_accept_return(st.body[0]) and not st.orelse:
            out.append("flattenAccept")
        elif isinstance(st, ast.If) and "obj.dtype" in _src(st.test) and all(
                isinstance(n, (ast.Assign, ast.If, ast.Expr)) or True for n in st.body) and any(
                isinstance(n, ast.Assign) and _src(n.targets[0]) in ("dtype", "(*_, dtype)") for n in ast.walk(st)) and not any(isinstance(n, ast.Return) for n in ast.walk(st)):
            out.append("dtypeName")
        elif isinstance(st, ast.Assign) and _src(st.targets[0]) == "dtype" and isinstance(st.value, ast.Call) \
                and isinstance(st.value.func, ast.Name) and st.value.func.id in helpers and [_src(a) for a in st.value.args] == ["obj"] \
                and not any(isinstance(n, ast.Call) and _src(n.func) in ("set_shape_memo", "get_shape_memo") for n in ast.walk(helpers[st.value.func.id])):
            out.append("dtypeName")   # the extraction moved into a module-level helper
        elif isinstance(st, ast.If) and _src(st.test) == "cls.dtypes is not _any_dtype":
            rets = [n for n in ast.walk(st) if isinstance(n, ast.Return)]
            guarded = [n for n in ast.walk(st) if isinstance(n, ast.If) and (_src(n.test) == "not in_dtypes" or (
                isinstance(n.test, ast.UnaryOp) and isinstance(n.test.op, ast.Not) and isinstance(n.test.operand, ast.Call) and isinstance(n.test.operand.func, ast.Name)
                and n.test.operand.func.id in helpers and sorted(_src(a) for a in n.test.operand.args) == ["cls.dtypes", "dtype"]
                and not any(isinstance(m, ast.Call) and _src(m.func) in ("set_shape_memo", "get_shape_memo") for m in ast.walk(helpers[n.test.operand.func.id]))))]
            ok = bool(rets) and all(_is_message_return(r) for r in rets) and len(guarded) == 1 and not st.orelse
            out.append("dtypeTest" if ok else "unknown")
        elif isinstance(st, ast.If) and isinstance(st.test, ast.BoolOp) and isinstance(st.test.op, ast.And) and len(st.test.values) == 2 \
                and _src(st.test.values[0]) == "cls.dtypes is not _any_dtype":
            # `if cls.dtypes is not _any_dtype and not <matcher>(dtype, cls.dtypes): return <message>`
            t2 = st.test.values[1]
            rets = [n for n in ast.walk(st) if isinstance(n, ast.Return)]
            ok = (isinstance(t2, ast.UnaryOp) and isinstance(t2.op, ast.Not) and isinstance(t2.operand, ast.Call)
                  and isinstance(t2.operand.func, ast.Name) and t2.operand.func.id in helpers
                  and sorted(_src(a) for a in t2.operand.args) == ["cls.dtypes", "dtype"]
                  and bool(rets) and all(_is_message_return(r) for r in rets) and not st.orelse)
            out.append("dtypeTest" if ok else "unknown")
        elif isinstance(st, ast.Assign) and isinstance(st.value, ast.Call) and isinstance(st.value.func, ast.Name) and st.value.func.id in helpers \
                and len(st.value.args) == 2 and _src(st.value.args[0]) == "cls" and isinstance(st.value.args[1], ast.Call) \
                and isinstance(st.value.args[1].func, ast.Name) and st.value.args[1].func.id in helpers and [_src(a) for a in st.value.args[1].args] == ["obj"] \
                and i + 1 < len(body) and isinstance(body[i + 1], ast.If) and _src(body[i + 1].test) == f"{_src(st.targets[0])} != ''" \
                and [_src(x) for x in body[i + 1].body] == [f"return {_src(st.targets[0])}"] and not body[i + 1].orelse:
            # `msg = <check_dtype>(cls, <dtype_name>(obj))` / `if msg != "": return msg`: name extraction, then the dtype test
            h2 = helpers[st.value.func.id]
            rets = [r for r in ast.walk(h2) if isinstance(r, ast.Return)]
            ok = "_any_dtype" in _src(h2) and bool(rets) and all(_is_accept_return(r) or _is_message_return(r) for r in rets) \
                and not any(isinstance(n, ast.Call) and _src(n.func) in ("set_shape_memo", "get_shape_memo") for hh in (h2, helpers[st.value.args[1].func.id]) for n in ast.walk(hh))
            out.extend(["dtypeName", "dtypeTest"] if ok else ["unknown"])
            i += 1
        elif isinstance(st, ast.Assign) and _src(st.value) == "get_shape_memo()" and isinstance(st.targets[0], ast.Name) \
                and i + 2 < len(body) and isinstance(body[i + 1], ast.Assign) and _src(body[i + 1].value) == st.targets[0].id \
                and isinstance(body[i + 2], ast.Assign) and __import__("re").fullmatch(
                    r"tuple\(*\[?(\w+)\.copy\(\)for\1in" + st.targets[0].id + r"\]?\)*", _src(body[i + 2].value).replace(" ", "")):
            # `memos = get_shape_memo()`, unpacked, `memos_bak = tuple(m.copy() for m in memos)`
            out.append("snapshot")
            i += 2
        elif isinstance(st, ast.Assign) and _src(st.value) == "get_shape_memo()":
            # followed by the four .copy() backups
            baks = body[i + 1:i + 5]
            nxt = body[i + 1] if i + 1 < len(body) else None
            if len(baks) == 4 and all(isinstance(b, ast.Assign) and _src(b.value).endswith("_memo.copy()") for b in baks):
                out.append("snapshot")
                i += 4
            elif isinstance(nxt, ast.Assign) and isinstance(nxt.value, ast.Tuple) and len(nxt.value.elts) == 4 \
                    and len({_src(e) for e in nxt.value.elts}) == 4 and all(_src(e).endswith("_memo.copy()") for e in nxt.value.elts):
                out.append("snapshot")   # one tuple of the four copies
                i += 1
            else:
                out.append("unknown")
        elif isinstance(st, ast.Try):
            ok = (len(st.body) == 1 and _src(st.body[0]) == "check = cls._check_shape(obj, single_memo, variadic_memo, arg_memo)"
                  and len(st.handlers) == 1 and not st.orelse and not st.finalbody
                  and any(isinstance(n, ast.Raise) and n.exc is None for n in st.handlers[0].body)
                  and any(isinstance(n, ast.Expr) and _src(n.value).startswith("set_shape_memo(") for n in st.handlers[0].body))
            out.append("walk" if ok else "unknown")
        elif isinstance(st, ast.If) and _src(st.test) == "check == ''" and [_src(x) for x in st.body] == ["return check"] and not st.orelse \
                and i + 3 == len(body) and _src(body[i + 1]).startswith("set_shape_memo(") and _src(body[i + 2]) == "return check":
            # `if check == "": return check` / `set_shape_memo(<backups>)` / `return check`
            out.append("finish")
            i += 2
        elif isinstance(st, ast.If) and _src(st.test) == "check == ''":
            ok = (len(st.body) == 1 and _src(st.body[0]) == "return check" and len(st.orelse) == 2
                  and _src(st.orelse[0]).startswith("set_shape_memo(") and _src(st.orelse[1]) == "return check")
            out.append("finish" if ok else "unknown")
        elif isinstance(st, ast.If) and _src(st.test) == "check != ''" and i + 2 == len(body) and _src(body[i + 1]) == "return check":
            # `if check != "": set_shape_memo(<backups>)` followed by `return check`
            ok = len(st.body) == 1 and _src(st.body[0]).startswith("set_shape_memo(") and not st.orelse
            out.append("finish" if ok else "unknown")
            i += 1
        else:
            out.append("unknown")
        i += 1
    return out



# ----------------------------------------------------------------------------- the dim-string parser (C14)

FLAGS = {"broadcastable": "b", "variadic": "v", "anonymous": "a", "treepath": "t"}
KINDS = {"named": "named", "fixed": "fixed", "symbolic": "symbolic"}
CTORS = {
    "_FixedDim(elem, broadcastable)": "fixed", "_anonymous_variadic_dim": "anonVar", "_anonymous_dim": "anon",
    "_NamedVariadicDim(elem, broadcastable, treepath)": "namedVar", "_NamedDim(elem, broadcastable, treepath)": "named",
    "_SymbolicDim(elem, broadcastable)": "sym",
}


def _lchar(c):
    return "'\\''" if c == "'" else "'" + c + "'"


class _ParserTranslator:
    """statement-by-statement translation of the loop body into `PStmt` terms (Model/ParserDsl.lean)"""

    def __init__(self):
        self.loops = []          # bodies of `while True` loops, in source order
        self.first_char_ok = False   # `first_char` holds `elem[0]` of the CURRENT `elem`
        self.notes = []

    def cond(self, e):
        src = _src(e)
        if isinstance(e, ast.BoolOp):
            op = ".and" if isinstance(e.op, ast.And) else ".or"
            out = self.cond(e.values[-1])
            for v in reversed(e.values[:-1]):
                out = f"({op} {self.cond(v)} {out})"
            return out
        if isinstance(e, ast.UnaryOp) and isinstance(e.op, ast.Not):
            return f"(.not {self.cond(e.operand)})"
        if isinstance(e, ast.Name) and e.id in FLAGS:
            return f"(.flag .{FLAGS[e.id]})"
        table = {
            "',' in elem": ".hasComma", "',' not in elem": "(.not .hasComma)", "'(' in elem": ".hasParen", "'(' not in elem": "(.not .hasParen)",
            "elem.endswith('#')": ".endsHash", "'...' in elem": ".hasEllipsis", "'...' not in elem": "(.not .hasEllipsis)",
            "elem == '...'": ".eqEllipsis", "elem != '...'": "(.not .eqEllipsis)",
            "index_variadic is not None": ".ivSet", "index_variadic is None": "(.not .ivSet)",
            "len(elem) == 0": ".lenZero", "elem == ''": ".lenZero", "len(elem) != 0": "(.not .lenZero)", "len(elem) > 0": "(.not .lenZero)",
            "elem.count('=') == 1": ".countEqOne", "elem.isidentifier()": ".isIdent",
        }
        if src in table:
            return table[src]
        if isinstance(e, ast.Compare) and len(e.ops) == 1 and isinstance(e.ops[0], (ast.Is, ast.Eq, ast.IsNot, ast.NotEq)) \
                and _src(e.left) == "dim_type" and _src(e.comparators[0]).startswith("_DimType.") and _src(e.comparators[0])[9:] in KINDS:
            c = f"(.kindIs .{KINDS[_src(e.comparators[0])[9:]]})"
            return c if isinstance(e.ops[0], (ast.Is, ast.Eq)) else f"(.not {c})"
        if isinstance(e, ast.Compare) and len(e.ops) == 1 and isinstance(e.ops[0], (ast.Eq, ast.NotEq)) and _src(e.left) == "first_char" \
                and isinstance(e.comparators[0], ast.Constant) and isinstance(e.comparators[0].value, str) and len(e.comparators[0].value) == 1 \
                and ord(e.comparators[0].value) < 128:
            if not self.first_char_ok:
                self.notes.append("first_char tested where it may not be elem[0]")
                return ".unknown"
            c = f"(.firstIs {_lchar(e.comparators[0].value)})"
            return c if isinstance(e.ops[0], ast.Eq) else f"(.not {c})"
        self.notes.append("condition not recognised: " + src[:60])
        return ".unknown"

    def seq(self, stmts):
        stmts = _strip(stmts)
        if not stmts:
            return ".skip"
        parts = [self.stmt(st) for st in stmts]   # left to right: `first_char_ok` follows the control flow of a block
        out = parts[-1]
        for p in reversed(parts[:-1]):
            out = f"(.seq {p} {out})"
        return out

    def stmt(self, st):
        src = _src(st)
        if isinstance(st, ast.If):
            c = self.cond(st.test)
            keep = self.first_char_ok
            t = self.seq(st.body)
            self.first_char_ok = keep     # the tests of an if / elif chain all see the state before the chain
            e = self.seq(st.orelse)
            self.first_char_ok = False if (("dropFirst" in t + e) or ("afterEq" in t + e)) else keep
            return f"(.ite {c} {t} {e})"
        if isinstance(st, ast.Raise):
            if st.exc is not None and _src(st.exc).startswith("ValueError("):
                return ".raise"
            self.notes.append("raise of something else: " + src[:60])
            return ".unknown"
        if isinstance(st, ast.Break):
            return ".brk"
        if isinstance(st, ast.Pass):
            return ".skip"
        if isinstance(st, ast.While):
            if _src(st.test) != "True" or st.orelse:
                self.notes.append("loop other than `while True`")
                return ".unknown"
            keep = self.first_char_ok
            self.first_char_ok = False
            body = self.seq(st.body)
            self.first_char_ok = False
            self.loops.append(body)
            return f"(.loop parserLoopBody{'' if len(self.loops) == 1 else len(self.loops)})"
        if isinstance(st, ast.Try):
            body = _strip(st.body)
            if len(body) == 1 and _src(body[0]) == "elem = int(elem)" and len(st.handlers) == 1 and _src(st.handlers[0].type) == "ValueError" \
                    and st.handlers[0].name is None and not st.finalbody:
                self.first_char_ok = False
                return f"(.tryInt {self.seq(st.handlers[0].body)} {self.seq(st.orelse)})"
            self.notes.append("try statement not recognised")
            return ".unknown"
        if isinstance(st, ast.Assign) and len(st.targets) == 1:
            tgt, val = _src(st.targets[0]), _src(st.value)
            if tgt in FLAGS and val in ("True", "False"):
                return f"(.setFlag .{FLAGS[tgt]} {val.lower()})"
            if tgt == "dim_type" and val.startswith("_DimType.") and val[9:] in KINDS:
                return f"(.setKind .{KINDS[val[9:]]})"
            if tgt == "first_char" and val == "elem[0]":
                self.first_char_ok = True
                # reading elem[0] of an empty string raises IndexError: a test of emptiness must come first
                return "(.ite .lenZero .unknown .skip)"
            if tgt == "elem" and val == "elem[1:]":
                self.first_char_ok = False
                return ".dropFirst"
            if tgt in ("(_, elem)", "_, elem") and val == "elem.split('=')":
                self.first_char_ok = False
                return ".afterEq"
            if tgt == "index_variadic" and val == "index":
                return ".setIv"
            if tgt == "elem" and val in CTORS:
                self.first_char_ok = False
                return f"(.mk .{CTORS[val]})"
            if tgt == "elem" and isinstance(st.value, ast.IfExp) and _src(st.value.body) in CTORS and _src(st.value.orelse) in CTORS:
                self.first_char_ok = False
                return f"(.ite {self.cond(st.value.test)} (.mk .{CTORS[_src(st.value.body)]}) (.mk .{CTORS[_src(st.value.orelse)]}))"
        if isinstance(st, ast.Expr) and src == "dims.append(elem)":
            return ".append"
        self.notes.append("statement not recognised: " + src[:60])
        return ".unknown"


def translate_parser(tree):
    fn = next((n for n in tree.body if isinstance(n, ast.FunctionDef) and n.name == "_make_array_cached"), None)
    if fn is None:
        return ".unknown", [".unknown"], False, ["no _make_array_cached"]
    loops = [n for n in fn.body if isinstance(n, ast.For) and _src(n.iter) == "enumerate(dim_str.split())"]
    if len(loops) != 1:
        return ".unknown", [".unknown"], False, ["the loop over dim_str.split() was not found"]
    lp = loops[0]
    # `dims.append(<helper>(...))` is `elem = <helper>(...)` followed by `dims.append(elem)`; then see through helpers
    import copy

    fn2 = copy.deepcopy(fn)
    lp2 = next(n for n in fn2.body if isinstance(n, ast.For) and _src(n.iter) == "enumerate(dim_str.split())")
    for k_, st in enumerate(list(lp2.body)):
        if isinstance(st, ast.Expr) and isinstance(st.value, ast.Call) and _src(st.value.func) == "dims.append" and len(st.value.args) == 1 \
                and isinstance(st.value.args[0], ast.Call) and k_ == len(lp2.body) - 1:
            lp2.body[k_:k_ + 1] = [ast.Assign(targets=[ast.Name(id="elem", ctx=ast.Store())], value=st.value.args[0], lineno=0, col_offset=0),
                                   ast.Expr(value=ast.Call(func=st.value.func, args=[ast.Name(id="elem", ctx=ast.Load())], keywords=[]))]
    ast.fix_missing_locations(fn2)
    fn2 = _inlined(fn2, tree)
    lp = next(n for n in fn2.body if isinstance(n, ast.For) and _src(n.iter) == "enumerate(dim_str.split())")
    tr = _ParserTranslator()
    body = tr.seq(lp.body)
    fn = fn2
    k = fn.body.index(lp)
    before = [_src(s) for s in _strip(fn.body[:k])]
    after = [_src(s) for s in _strip(fn.body[k + 1:k + 2])]
    header = (_src(lp.target) == "(index, elem)" and not lp.orelse and "dims = []" in before and "index_variadic = None" in before
              and after == ["dims = tuple(dims)"]
              and any(isinstance(s, ast.If) and _src(s.test) == "not isinstance(dim_str, str)" and any(isinstance(r, ast.Raise) for r in s.body)
                      for s in fn.body[:k])
              # nothing in front of the loop rewrites the string or looks at its characters
              and all(isinstance(s, (ast.Assign, ast.If, ast.Expr)) and "dim_str" not in _src(s).replace("isinstance(dim_str, str)", "") for s in _strip(fn.body[:k])))
    return body, tr.loops or [".unknown"], bool(header), tr.notes

# ----------------------------------------------------------------------------- index arithmetic of _check_shape


def _iexp(e):
    src = _src(e)
    if src in ("cls.index_variadic", "i") :
        return ".iv" if src == "cls.index_variadic" else None
    if src == "len(cls.dims)":
        return ".lenDims"
    if src in ("len(obj.shape)", "obj.ndim"):
        return ".lenShape" if src == "len(obj.shape)" else ".unknown"
    if isinstance(e, ast.Constant) and isinstance(e.value, int) and not isinstance(e.value, bool):
        return f"(.lit {e.value})" if e.value >= 0 else f"(.lit ({e.value}))"
    if isinstance(e, ast.UnaryOp) and isinstance(e.op, ast.USub):
        a = _iexp(e.operand)
        return f"(.neg {a})" if a else None
    if isinstance(e, ast.BinOp) and isinstance(e.op, (ast.Sub, ast.Add)):
        a, b = _iexp(e.left), _iexp(e.right)
        if a and b:
            return f"(.{'sub' if isinstance(e.op, ast.Sub) else 'add'} {a} {b})"
    return None


def _icmp(test, env):
    ops = {ast.NotEq: "ne", ast.Eq: "eq", ast.Lt: "lt", ast.LtE: "le", ast.Gt: "gt", ast.GtE: "ge"}
    if isinstance(test, ast.Compare) and len(test.ops) == 1 and type(test.ops[0]) in ops:
        a, b = _iexp_env(test.left, env), _iexp_env(test.comparators[0], env)
        if a and b:
            return f"({a}, .{ops[type(test.ops[0])]}, {b})"
    return "(.unknown, .eq, .unknown)"


def _iexp_env(e, env):
    """like _iexp, with the locals `i` (and other integer locals) replaced by what they were assigned"""
    if isinstance(e, ast.Name) and e.id in env:
        return env[e.id]
    if isinstance(e, ast.UnaryOp) and isinstance(e.op, ast.USub):
        a = _iexp_env(e.operand, env)
        return f"(.neg {a})" if a else None
    if isinstance(e, ast.BinOp) and isinstance(e.op, (ast.Sub, ast.Add)):
        a, b = _iexp_env(e.left, env), _iexp_env(e.right, env)
        if a and b:
            return f"(.{'sub' if isinstance(e.op, ast.Sub) else 'add'} {a} {b})"
        return None
    return _iexp(e)


def _bnd(e):
    if e is None:
        return ".omitted"
    return {"i": ".i", "j": ".j"}.get(_src(e), ".unknown")


def _slice_of(e, base):
    """`<base>[lo:hi]` -> (lo, hi) bounds, or None"""
    if isinstance(e, ast.Subscript) and _src(e.value) == base and isinstance(e.slice, ast.Slice) and e.slice.step is None:
        return f"({_bnd(e.slice.lower)}, {_bnd(e.slice.upper)})"
    return None


def translate_slices(tree):
    unknown = ("{ noVarFail := (.unknown, .eq, .unknown), varFail := (.unknown, .eq, .unknown), i := .unknown, j := .unknown, jNoneIfZero := false, "
               "suffixGuarded := false, prefixDims := (.unknown, .unknown), prefixShape := (.unknown, .unknown), suffixDims := (.unknown, .unknown), "
               "suffixShape := (.unknown, .unknown), midFirst := (.unknown, .unknown), midBound := (.unknown, .unknown), varIndex := .unknown }")
    cls = next((n for n in tree.body if isinstance(n, ast.ClassDef) and n.name == "_MetaAbstractArray"), None)
    fn = next((n for n in (cls.body if cls else []) if isinstance(n, ast.FunctionDef) and n.name == "_check_shape"), None)
    if fn is None:
        return unknown, "no _check_shape"
    body = _strip(fn.body)
    if not body or not isinstance(body[0], ast.If) or _src(body[0].test) not in ("cls.index_variadic is None", "cls.index_variadic is not None"):
        return unknown, "top-level split on cls.index_variadic not recognised"
    top = body[0]
    if len(body) > 1:
        # un-nested: `if cls.index_variadic is None: ...; return ...` followed by the other case
        if top.orelse or _src(top.test) != "cls.index_variadic is None" or not isinstance(_strip(top.body)[-1], ast.Return):
            return unknown, "top-level split on cls.index_variadic not recognised"
        novar, var = top.body, body[1:]
    else:
        novar, var = (top.body, top.orelse) if _src(top.test) == "cls.index_variadic is None" else (top.orelse, top.body)
    novar, var = _strip(novar), _strip(var)
    # no multi-axis specifier: `if <rank test>: return <msg>` then `return _check_dims(cls.dims, obj.shape, ...)`
    if not (len(novar) == 2 and isinstance(novar[0], ast.If) and len(novar[0].body) == 1 and _is_message_return(novar[0].body[0]) and not novar[0].orelse
            and isinstance(novar[1], ast.Return) and _src(novar[1].value).startswith("_check_dims(cls.dims, obj.shape,")):
        return unknown, "branch without a multi-axis specifier not recognised"
    f1 = _icmp(novar[0].test, {})
    # with one: rank test, i, j, j-None rule, prefix, guarded suffix
    if not (var and isinstance(var[0], ast.If) and len(var[0].body) == 1 and _is_message_return(var[0].body[0]) and not var[0].orelse):
        return unknown, "rank test of the multi-axis branch not recognised"
    f2 = _icmp(var[0].test, {})
    env, i_exp, j_exp, jnone = {}, None, None, False
    k = 1
    while k < len(var):
        st = var[k]
        if isinstance(st, ast.Assign) and len(st.targets) == 1 and isinstance(st.targets[0], ast.Name) and st.targets[0].id in ("i", "j"):
            ex = _iexp_env(st.value, env)
            if ex is None:
                return unknown, f"value of {st.targets[0].id} not recognised"
            if st.targets[0].id == "i":
                i_exp = ex
                env["i"] = ex
            else:
                j_exp = ex
            k += 1
        elif isinstance(st, ast.If) and _src(st.test) == "j == 0" and [_src(x) for x in st.body] == ["j = None"] and not st.orelse:
            jnone = True
            k += 1
        else:
            break
    if i_exp is None or j_exp is None:
        return unknown, "assignments of i / j not found"
    rest = var[k:]
    # prefix_check = _check_dims(cls.dims[:i], obj.shape[:i], ...); if prefix_check != "": return prefix_check
    def dims_call(st):
        if isinstance(st, ast.Assign) and isinstance(st.value, ast.Call) and _src(st.value.func) == "_check_dims" and len(st.value.args) >= 2:
            return _slice_of(st.value.args[0], "cls.dims"), _slice_of(st.value.args[1], "obj.shape"), _src(st.targets[0])
        return None
    if len(rest) < 3 or dims_call(rest[0]) is None or not (isinstance(rest[1], ast.If) and _src(rest[1].test) == f"{dims_call(rest[0])[2]} != ''"
                                                               and [_src(x) for x in rest[1].body] == [f"return {dims_call(rest[0])[2]}"] and not rest[1].orelse):
        return unknown, "prefix check not recognised"
    pd, ps, _ = dims_call(rest[0])
    sfx = rest[2]
    guarded = False
    sstmts = None
    if isinstance(sfx, ast.If) and _src(sfx.test) == "j is not None" and not sfx.orelse:
        guarded, sstmts, nxt = True, _strip(sfx.body), 3
    else:
        sstmts, nxt = rest[2:4], 4
    if not (len(sstmts) == 2 and dims_call(sstmts[0]) is not None and isinstance(sstmts[1], ast.If) and _src(sstmts[1].test) == f"{dims_call(sstmts[0])[2]} != ''"
            and [_src(x) for x in sstmts[1].body] == [f"return {dims_call(sstmts[0])[2]}"] and not sstmts[1].orelse):
        return unknown, "suffix check not recognised"
    sd, ss, _ = dims_call(sstmts[0])
    tail = rest[nxt:]
    # variadic_dim = cls.dims[i]
    vi = next((_bnd(s.value.slice) for s in tail if isinstance(s, ast.Assign) and _src(s.targets[0]) == "variadic_dim" and isinstance(s.value, ast.Subscript)
               and _src(s.value.value) == "cls.dims" and not isinstance(s.value.slice, ast.Slice)), ".unknown")
    mids = [_slice_of(n, "obj.shape") for s in tail for n in ast.walk(s) if isinstance(n, ast.Subscript) and _src(n.value) == "obj.shape"]
    if len(mids) != 2 or None in (pd, ps, sd, ss) or None in mids:
        return unknown, "slices of obj.shape for the multi-axis specifier not recognised"
    plan = (f"{{ noVarFail := {f1}, varFail := {f2}, i := {i_exp}, j := {j_exp}, jNoneIfZero := {'true' if jnone else 'false'}, "
            f"suffixGuarded := {'true' if guarded else 'false'}, prefixDims := {pd}, prefixShape := {ps}, suffixDims := {sd}, suffixShape := {ss}, "
            f"midFirst := {mids[0]}, midBound := {mids[1]}, varIndex := {vi} }}")
    return plan, ""


def run():
    with open(os.path.join(REPO, "jaxtyping", "_array_types.py")) as fh:
        tree = ast.parse(fh.read())
    _find_name_helpers(tree)
    chain, note1 = translate_check_dims(tree)
    code, first, note2 = translate_variadic(tree)
    stages = translate_stages(tree)
    plan, note3 = translate_slices(tree)
    txt = f"""/- GENERATED by harness/translate.py from {REPO}/jaxtyping/_array_types.py on every run. Do not edit. -/
import JaxVerif.Model.SourceDsl

namespace JV.Generated

/-- the `if / elif / else` chain of `_check_dims`, in source order {('(' + note1 + ')') if note1 else ''} -/
def checkDimsChain : List (DGuard × DAction) :=
  [{', '.join(f'(.{g}, .{a})' for g, a in chain)}]

/-- `_check_shape`, multi-axis name already bound: the statements after `new_shape = obj.shape[i:j]` {('(' + note2 + ')') if note2 else ''} -/
def variadicCode : List VStmt :=
  [{', '.join(code)}]

/-- `_check_shape`, name not bound yet: stores `(broadcastable, obj.shape[i:j])` and accepts -/
def variadicFirstStoresCurNew : Bool := {'true' if first else 'false'}

/-- the top-level statements of `__instancecheck_str__`, in source order -/
def instancecheckStages : List IStage :=
  [{', '.join('.' + x for x in stages)}]

/-- the rank tests and the slices of `_check_shape` around the multi-axis specifier {('(' + note3 + ')') if note3 else ''} -/
def slicePlan : SlicePlan :=
  {plan}

end JV.Generated
"""
    write_if_changed(os.path.join(GEN, "CheckCode.lean"), txt)
    pbody, ploops, pheader, pnotes = translate_parser(tree)
    loopdefs = "\n\n".join(
        f"/-- the body of the {'' if i == 0 else str(i + 1) + '. '}`while True` loop that strips modifiers -/\ndef parserLoopBody{'' if i == 0 else i + 1} : PStmt :=\n  {b}"
        for i, b in enumerate(ploops))
    ptxt = f"""/- GENERATED by harness/translate.py from {REPO}/jaxtyping/_array_types.py on every run. Do not edit. -/
import JaxVerif.Model.ParserDsl

namespace JV.Generated

{loopdefs}

/-- the body of `for index, elem in enumerate(dim_str.split())` {('(' + '; '.join(pnotes)[:300] + ')') if pnotes else ''} -/
def parserBody : PStmt :=
  {pbody}

/-- the statements around the loop body are the ones the model assumes -/
def parserHeaderOk : Bool := {'true' if pheader else 'false'}

end JV.Generated
"""
    write_if_changed(os.path.join(GEN, "ParserCode.lean"), ptxt)
    return {"parser_notes": pnotes, "parser_header": pheader, "check_dims_chain": chain, "variadic_code": code, "variadic_first": first, "stages": stages, "notes": [n for n in (note1, note2) if n]}


if __name__ == "__main__":
    import json

    print(json.dumps(run(), indent=1))
