/-
The bodies of the `jaxtyped` wrappers, translated from the current source on every run
(harness/translate_wrap.py -> Generated/WrapperCode.lean), are the `call` / `ctx` steps of the model
(Model/Call.lean through Lemmas/CallStep.lean) with every structural fact `true`: for every argument list,
every body, every verdict of the typechecker, every way the body may end, both values of the
remove-stack switch. The proof scripts only split on what the code can look at and compute, so a
meaning-preserving restructuring of the source is re-proved as it is, while a change of meaning (the
disable test after the push, `pop` outside the `finally`, `except Exception` in front of
`except AnnotationError`, the body called twice or not at all, a stale message) makes them fail.
Used by Properties/C05, C07, C13, C19. Core Lean only.
-/
import JaxVerif.Generated.WrapperCode
import JaxVerif.Lemmas.CallStep

namespace JV

/-- every structural fact about the wrappers as the model's theorems need it -/
def goodWrap : WrapSkel := ⟨true, true, true, true, true, true, true, true⟩

set_option linter.unusedSimpArgs false

macro "wsimp" "[" hs:Lean.Parser.Tactic.simpLemma,* "]" : tactic =>
  `(tactic| simp [WStmt.run, goodWrap, WCond.eval, WRes.finish, WExc.outcome, verdictRes, callFnRes, exitRes,
      popAfter, isExceptional, WCls.covers, exitOutcome, newRetFail, newParamFail, popStack, topMemo, pushFrame,
      oldOutcome, $hs,*])

/-- `with jaxtyped("context"):` as written today -/
theorem source_context (B : TState → TState × List Obs) (e : Exit) (st : TState) :
    runCtx Generated.ctxEnterCode Generated.ctxExitCode none B e st = some (ctxStep goodWrap B e st) := by
  simp [runCtx, Generated.ctxEnterCode, Generated.ctxExitCode, WStmt.run, ctxStep, goodWrap, pushFrame, popStack]

/-- `jaxtyped(typechecker=None)(fn)` as written today -/
theorem source_nochecker_wrapper (sk : Skel) (ps : List Param) (ret : Option (LType × Obj))
    (bindOk noTc rs nw : Bool) (B : TState → TState × List Obs) (e : Exit) (st : TState) :
    runWrapper ⟨sk, ps, ret, bindOk, noTc, B, e, rs, nw, none, .plain, .unknown⟩ Generated.oldWrapperCode st
      = some (callStep sk goodWrap .noChecker ps ret bindOk noTc B e st) := by
  unfold runWrapper Generated.oldWrapperCode callStep
  cases bindOk <;> cases e <;> cases nw <;> wsimp []

set_option maxHeartbeats 4000000 in
/-- `jaxtyped(typechecker(fn))` (old style) as written today: `fn` is the typechecker's own wrapper -/
theorem source_old_wrapper (sk : Skel) (ps : List Param) (ret : Option (LType × Obj))
    (bindOk noTc rs nw : Bool) (B : TState → TState × List Obs) (e : Exit) (st : TState) :
    runWrapper ⟨sk, ps, ret, bindOk, noTc, B, e, rs, nw, none, .typechecked, .unknown⟩ Generated.oldWrapperCode st
      = some (callStep sk goodWrap .oldStyle ps ret bindOk noTc B e st) := by
  unfold runWrapper Generated.oldWrapperCode callStep
  cases bindOk
  · wsimp []
  · generalize h1 : checkParams sk ps (pushFrame { args := argsOf ps } st) = r1
    obtain ⟨st1, v1, n1⟩ := r1
    have h1' : checkParams sk ps { st with stack := { args := argsOf ps } :: st.stack } = (st1, v1, n1) := h1
    cases v1 with
    | T =>
      cases e with
      | ret =>
        cases ret with
        | none => cases nw <;> wsimp [h1']
        | some lx =>
          obtain ⟨l, x⟩ := lx
          generalize h3 : onTop (B st1).1 (checkL sk l x) = r3
          obtain ⟨st3, v3⟩ := r3
          cases v3 with
          | EXC x3 => cases x3 <;> cases nw <;> wsimp [h1', h3]
          | _ => cases nw <;> wsimp [h1', h3]
      | _ => cases nw <;> wsimp [h1']
    | EXC x1 => cases x1 <;> cases nw <;> wsimp [h1']
    | _ => cases nw <;> wsimp [h1']

set_option maxHeartbeats 4000000 in
/-- `jaxtyped(typechecker=tc)(fn)` (new style) as written today: `wrapped_fn` together with its helper
    frame `wrapped_fn_impl` -/
theorem source_new_wrapper (sk : Skel) (ps : List Param) (ret : Option (LType × Obj))
    (bindOk noTc rs nw : Bool) (B : TState → TState × List Obs) (e : Exit) (st : TState) :
    runWrapper ⟨sk, ps, ret, bindOk, noTc, B, e, rs, nw, none, .plain, Generated.newImplCode⟩
        Generated.newWrapperCode st
      = some (callStep sk goodWrap .newStyle ps ret bindOk noTc B e st) := by
  unfold runWrapper Generated.newWrapperCode Generated.newImplCode callStep
  by_cases hd : (st.disable || noTc) = true
  · cases bindOk <;> cases e <;> wsimp [hd]
  · cases bindOk
    · wsimp [hd]
    · generalize h1 : checkParams sk ps (pushFrame { args := argsOf ps } st) = r1
      obtain ⟨st1, v1, n1⟩ := r1
      have h1' : checkParams sk ps { st with stack := { args := argsOf ps } :: st.stack } = (st1, v1, n1) := h1
      cases v1 with
      | T =>
        cases e with
        | ret =>
          cases ret with
          | none => wsimp [hd, h1']
          | some lx =>
            obtain ⟨l, x⟩ := lx
            generalize h2 : checkParams sk ps (B st1).1 = r2
            obtain ⟨st2, v2, n2⟩ := r2
            cases v2 with
            | T =>
              generalize h3 : onTop st2 (checkL sk l x) = r3
              obtain ⟨st3, v3⟩ := r3
              cases v3 with
              | EXC x3 => cases x3 <;> cases rs <;> wsimp [hd, h1', h2, h3]
              | _ => cases rs <;> wsimp [hd, h1', h2, h3]
            | EXC x2 => cases x2 <;> cases rs <;> wsimp [hd, h1', h2]
            | _ => cases rs <;> wsimp [hd, h1', h2]
        | _ => wsimp [hd, h1']
      | EXC x1 =>
        generalize h4 : problemArg sk ps st1 = r4
        obtain ⟨st4, b4⟩ := r4
        cases x1 <;> cases b4 <;> cases rs <;> wsimp [hd, h1', h4]
      | F =>
        generalize h4 : problemArg sk ps st1 = r4
        obtain ⟨st4, b4⟩ := r4
        cases b4 <;> cases rs <;> wsimp [hd, h1', h4]
      | ANN => wsimp [hd, h1']

/-! ### whatever the message code does

Statements that only assemble message text run user code (`__repr__` of the arguments, `__setattr__` of the exception
a note is attached to). Whether or not the first of them raises (`mf`), the thread state the wrapper leaves behind
is the model's: the context pushed for the call is popped, nothing else is touched. -/

/-- a context block, message code failing or not -/
theorem source_context_faults (mf : Option Exc) (B : TState → TState × List Obs) (e : Exit) (st : TState) :
    (runCtx Generated.ctxEnterCode Generated.ctxExitCode mf B e st).map Prod.fst = some (ctxStep goodWrap B e st).1 := by
  cases mf <;>
  simp [runCtx, Generated.ctxEnterCode, Generated.ctxExitCode, WStmt.run, ctxStep, goodWrap, pushFrame, popStack]

set_option maxHeartbeats 4000000 in
theorem source_old_wrapper_faults (k : FnKind) (mf : Option Exc) (sk : Skel) (ps : List Param) (ret : Option (LType × Obj))
    (bindOk noTc rs nw : Bool) (B : TState → TState × List Obs) (e : Exit) (st : TState) :
    (runWrapper ⟨sk, ps, ret, bindOk, noTc, B, e, rs, nw, mf, k, .unknown⟩ Generated.oldWrapperCode st).map Prod.fst
      = some (callStep sk goodWrap (match k with | .plain => .noChecker | .typechecked => .oldStyle) ps ret bindOk noTc B e st).1 := by
  unfold runWrapper Generated.oldWrapperCode callStep
  cases k
  · cases bindOk <;> cases e <;> cases nw <;> cases mf <;> wsimp []
  · cases bindOk
    · wsimp []
    · generalize h1 : checkParams sk ps (pushFrame { args := argsOf ps } st) = r1
      obtain ⟨st1, v1, n1⟩ := r1
      have h1' : checkParams sk ps { st with stack := { args := argsOf ps } :: st.stack } = (st1, v1, n1) := h1
      cases v1 with
      | T =>
        cases e with
        | ret =>
          cases ret with
          | none => cases nw <;> cases mf <;> wsimp [h1']
          | some lx =>
            obtain ⟨l, x⟩ := lx
            generalize h3 : onTop (B st1).1 (checkL sk l x) = r3
            obtain ⟨st3, v3⟩ := r3
            cases v3 with
            | EXC x3 => cases x3 <;> cases nw <;> cases mf <;> wsimp [h1', h3]
            | _ => cases nw <;> cases mf <;> wsimp [h1', h3]
        | _ => cases nw <;> cases mf <;> wsimp [h1']
      | EXC x1 => cases x1 <;> cases nw <;> cases mf <;> wsimp [h1']
      | _ => cases nw <;> cases mf <;> wsimp [h1']

set_option maxHeartbeats 4000000 in
theorem source_new_wrapper_faults (mf : Option Exc) (sk : Skel) (ps : List Param) (ret : Option (LType × Obj))
    (bindOk noTc rs nw : Bool) (B : TState → TState × List Obs) (e : Exit) (st : TState) :
    (runWrapper ⟨sk, ps, ret, bindOk, noTc, B, e, rs, nw, mf, .plain, Generated.newImplCode⟩
        Generated.newWrapperCode st).map Prod.fst
      = some (callStep sk goodWrap .newStyle ps ret bindOk noTc B e st).1 := by
  unfold runWrapper Generated.newWrapperCode Generated.newImplCode callStep
  by_cases hd : (st.disable || noTc) = true
  · cases bindOk <;> cases e <;> cases mf <;> wsimp [hd]
  · cases bindOk
    · cases mf <;> wsimp [hd]
    · generalize h1 : checkParams sk ps (pushFrame { args := argsOf ps } st) = r1
      obtain ⟨st1, v1, n1⟩ := r1
      have h1' : checkParams sk ps { st with stack := { args := argsOf ps } :: st.stack } = (st1, v1, n1) := h1
      cases v1 with
      | T =>
        cases e with
        | ret =>
          cases ret with
          | none => cases mf <;> wsimp [hd, h1']
          | some lx =>
            obtain ⟨l, x⟩ := lx
            generalize h2 : checkParams sk ps (B st1).1 = r2
            obtain ⟨st2, v2, n2⟩ := r2
            cases v2 with
            | T =>
              generalize h3 : onTop st2 (checkL sk l x) = r3
              obtain ⟨st3, v3⟩ := r3
              cases v3 with
              | EXC x3 => cases x3 <;> cases rs <;> cases mf <;> wsimp [hd, h1', h2, h3]
              | _ => cases rs <;> cases mf <;> wsimp [hd, h1', h2, h3]
            | EXC x2 => cases x2 <;> cases rs <;> cases mf <;> wsimp [hd, h1', h2]
            | _ => cases rs <;> cases mf <;> wsimp [hd, h1', h2]
        | _ => cases mf <;> wsimp [hd, h1']
      | EXC x1 =>
        generalize h4 : problemArg sk ps st1 = r4
        obtain ⟨st4, b4⟩ := r4
        cases x1 <;> cases b4 <;> cases rs <;> cases mf <;> wsimp [hd, h1', h4]
      | F =>
        generalize h4 : problemArg sk ps st1 = r4
        obtain ⟨st4, b4⟩ := r4
        cases b4 <;> cases rs <;> cases mf <;> wsimp [hd, h1', h4]
      | ANN => cases mf <;> wsimp [hd, h1']
/-- `_get_problem_arg` as written today: its `for keep_name … else` loop, translated from the current source on this run
    and run over ANY parameter list in any thread state, is `problemArg` of the model — each parameter is re-checked on
    its own in the same context, the first whose check does not succeed (False, AnnotationError or any other
    `Exception`) is blamed by name, a `BaseException` escapes, and when every parameter passes alone the blame is empty -/
theorem source_problem_arg (sk : Skel) : ∀ (ps : List Param) (st : TState),
    runBlame sk Generated.problemArgBody Generated.problemArgElse ps st = some (problemArg sk ps st)
  | [], st => by
    simp [runBlame, problemArg, Generated.problemArgElse, BStmt.run]
  | p :: ps, st => by
    rw [runBlame, problemArg]
    unfold Generated.problemArgBody
    generalize h : onTop st (checkL sk p.ty p.val) = r
    obtain ⟨st1, v⟩ := r
    cases v with
    | T =>
      first
      | (simp [BStmt.run, h, WCls.covers]; exact source_problem_arg sk ps st1)
      | simp [BStmt.run, h, WCls.covers, source_problem_arg sk ps]
    | F => simp [BStmt.run, h, WCls.covers]
    | ANN => simp [BStmt.run, h, WCls.covers]
    | EXC e => cases e <;> simp [BStmt.run, h, WCls.covers]

/-- the model's own step for a program term is therefore what the source does -/
theorem source_runProg_call (sk : Skel) (ps : List Param) (ret : Option (LType × Obj)) (bindOk noTc rs nw : Bool)
    (body : List Prog) (e : Exit) (st : TState) :
    runWrapper ⟨sk, ps, ret, bindOk, noTc, runProgs sk goodWrap body, e, rs, nw, none, .plain, Generated.newImplCode⟩
        Generated.newWrapperCode st
      = some (runProg sk goodWrap (.call .newStyle ps ret bindOk noTc body e) st) := by
  rw [source_new_wrapper, runProg_call_eq]

end JV
