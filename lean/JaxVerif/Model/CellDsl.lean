/-
A small language for the two one-value cells of jaxtyping/_storage.py: the `?`-leaf label
(`clear_` / `set_` / `get_treepath_memo`) and the flatten-mode flag (`clear_` / `set_` / `get_treeflatten_memo`).
The translator (harness/translate_storage.py) turns the current source into `Generated/StorageCode.lean`;
`Source/Storage.lean` proves on every run that, for EVERY content of the calling thread's cell (attribute missing,
`None` / `False`, a value), the translated functions are the operations on `tp : TreePath` and `flatten : Bool` the
model works with: clearing stores "no label", setting a label raises AnnotationError when one is set and otherwise
stores the label of THIS leaf index and structure, reading raises AnnotationError without a label; the flag reads as
False in a thread that never touched it. Anything the translator does not recognise is `.unknown`, on which the
interpreter crashes. Core Lean only.
-/
import JaxVerif.Model.Core

namespace JV

inductive KVal
  | none
  | bool (b : Bool)
  /-- `f"(Leaf {index} in structure {structure}) "` (index given) / `f"~~delete~~({structure}) "` (index None) -/
  | label (index : Option Nat) (sname : String)
  deriving DecidableEq, Repr

inductive KExpr
  | noneLit
  | boolLit (b : Bool)
  | loc (n : Nat)
  | attrVal                         -- `<cell>.value` (AttributeError when missing)
  | getattrVal (dflt : KExpr)       -- `getattr(<cell>, "value", dflt)`
  | hasattrVal
  | isNone (e : KExpr)
  | not (e : KExpr)
  | and (a b : KExpr)
  | or (a b : KExpr)
  | indexIsNone                     -- `index is None` (the parameter)
  | labelLeaf                       -- the leaf label built from BOTH parameters
  | labelHidden                     -- the hidden label built from `structure`
  | call (f : Nat)
  | unknown
  deriving Repr

inductive KStmt
  | skip
  | seq (a b : KStmt)
  | ite (c : KExpr) (t e : KStmt)
  | assign (n : Nat) (e : KExpr)
  | setAttr (e : KExpr)             -- `<cell>.value = e`
  | tryAttr (body handler : KStmt)
  | raiseAnn                        -- `raise AnnotationError(...)`
  | ret (e : KExpr)
  | retNone
  | unknown
  deriving Repr

structure KSt where
  /-- `none` = this thread has no attribute `value` -/
  cell : Option KVal
  locals : List (Nat × KVal)

/-- the arguments of `set_treepath_memo` -/
structure KCtx where
  index : Option Nat
  sname : String

inductive KERes
  | ok (v : KVal)
  | attrErr
  | crash

inductive KRes
  | normal (s : KSt)
  | returned (s : KSt) (v : KVal)
  | attrErr (s : KSt)
  | annErr (s : KSt)
  | crash

def ktruthy : KVal → Option Bool
  | .bool b => some b
  | .none => some false
  | .label _ _ => none         -- the truth of a string is not looked at by the code the fragment covers

mutual
def KExpr.eval (funs : List KStmt) (ctx : KCtx) : Nat → KExpr → KSt → KERes
  | _, .noneLit, _ => .ok .none
  | _, .boolLit b, _ => .ok (.bool b)
  | _, .loc n, s => (match s.locals.lookup n with | some v => .ok v | none => .crash)
  | _, .attrVal, s => (match s.cell with | some v => .ok v | none => .attrErr)
  | fuel, .getattrVal d, s => (match s.cell with | some v => .ok v | none => d.eval funs ctx fuel s)
  | _, .hasattrVal, s => .ok (.bool s.cell.isSome)
  | fuel, .isNone e, s =>
    (match e.eval funs ctx fuel s with
     | .ok .none => .ok (.bool true)
     | .ok _ => .ok (.bool false)
     | r => r)
  | fuel, .not e, s =>
    (match e.eval funs ctx fuel s with
     | .ok v => (match ktruthy v with | some b => .ok (.bool (!b)) | none => .crash)
     | r => r)
  | fuel, .and a b, s =>
    (match a.eval funs ctx fuel s with
     | .ok v => (match ktruthy v with | some true => b.eval funs ctx fuel s | some false => .ok v | none => .crash)
     | r => r)
  | fuel, .or a b, s =>
    (match a.eval funs ctx fuel s with
     | .ok v => (match ktruthy v with | some false => b.eval funs ctx fuel s | some true => .ok v | none => .crash)
     | r => r)
  | _, .indexIsNone, _ => .ok (.bool ctx.index.isNone)
  | _, .labelLeaf, _ => (match ctx.index with | some i => .ok (.label (some i) ctx.sname) | none => .crash)
  | _, .labelHidden, _ => .ok (.label none ctx.sname)
  | 0, .call _, _ => .crash
  | fuel + 1, .call f, s =>
    (match funs[f]? with
     | none => .crash
     | some body =>
       (match body.run funs ctx fuel { s with locals := [] } with
        | .returned _ v => .ok v           -- helpers of the fragment only read
        | .normal _ => .ok .none
        | .attrErr _ => .attrErr
        | _ => .crash))
  | _, .unknown, _ => .crash

def KStmt.run (funs : List KStmt) (ctx : KCtx) : Nat → KStmt → KSt → KRes
  | _, .skip, s => .normal s
  | fuel, .seq a b, s => (match a.run funs ctx fuel s with | .normal s1 => b.run funs ctx fuel s1 | r => r)
  | fuel, .ite c t e, s =>
    (match c.eval funs ctx fuel s with
     | .ok v => (match ktruthy v with | some true => t.run funs ctx fuel s | some false => e.run funs ctx fuel s | none => .crash)
     | .attrErr => .attrErr s
     | .crash => .crash)
  | fuel, .assign n e, s =>
    (match e.eval funs ctx fuel s with
     | .ok v => .normal { s with locals := (n, v) :: s.locals }
     | .attrErr => .attrErr s
     | .crash => .crash)
  | fuel, .setAttr e, s =>
    (match e.eval funs ctx fuel s with
     | .ok v => .normal { s with cell := some v }
     | .attrErr => .attrErr s
     | .crash => .crash)
  | fuel, .tryAttr body handler, s =>
    (match body.run funs ctx fuel s with
     | .attrErr s1 => handler.run funs ctx fuel s1
     | r => r)
  | _, .raiseAnn, s => .annErr s
  | fuel, .ret e, s =>
    (match e.eval funs ctx fuel s with
     | .ok v => .returned s v
     | .attrErr => .attrErr s
     | .crash => .crash)
  | _, .retNone, s => .returned s .none
  | _, .unknown, _ => .crash
end

/-- what the caller sees: `some (cell afterwards, inl value)` on return, `inr ()` for AnnotationError; `none` = crashed /
    raised something else / outside the fragment -/
def runCellFn (funs : List KStmt) (ctx : KCtx) (body : KStmt) (cell : Option KVal) : Option (Option KVal × (KVal ⊕ Unit)) :=
  match body.run funs ctx 4 { cell := cell, locals := [] } with
  | .returned s v => some (s.cell, .inl v)
  | .normal s => some (s.cell, .inl .none)
  | .annErr s => some (s.cell, .inr ())
  | _ => none

/-- the label the model keeps for a cell content: only leaf labels with an index count; "missing" and `None` are "no label" -/
def tpOfCell : Option KVal → TreePath
  | some (.label (some i) S) => some (i, S)
  | _ => none

def flattenOfCell : Option KVal → Bool
  | some (.bool b) => b
  | _ => false

end JV
