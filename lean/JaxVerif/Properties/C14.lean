/-
C14 — the dim-string language: modifier order is free, illegal forms are ValueError.
The model `parseSpec : List Char → Option (List PDim × Option Nat)` is total by construction:
`none` is the ValueError, `some` the accepted meaning; there is no third outcome.
-/
import JaxVerif.Spec.Parse
import JaxVerif.Lemmas.Parse
import JaxVerif.Lemmas.ParserDsl
import JaxVerif.Generated.ParserCode

namespace JV

/-- **modifier order is free**: any two orderings of the same modifier characters in front of the
    same rest of the token parse identically (value or ValueError alike) — unless an ordering puts
    `#` at the very end of the token, the documented trailing-`#` error. The rest may itself start
    with a `name=` prefix, a base of any kind, or be empty. -/
theorem C14_order (ms₁ ms₂ rest : List Char) (hp : ms₁.Perm ms₂)
    (hm : ∀ c ∈ ms₁, isMod c = true)
    (hlast : rest ≠ [] ∨ (ms₁.getLast? ≠ some '#' ∧ ms₂.getLast? ≠ some '#')) :
    parseTok (ms₁ ++ rest) = parseTok (ms₂ ++ rest) :=
  parseTok_perm ms₁ ms₂ rest hp hm hlast

/-- `...` means `*_` wherever it stands -/
theorem C14_ellipsis (pre post : List (List Char)) (idx : Nat) (iv : Option Nat) :
    parseToks (pre ++ ['.', '.', '.'] :: post) idx iv = parseToks (pre ++ ['*', '_'] :: post) idx iv :=
  parseToks_ellipsis pre post idx iv

/-- **whitespace is insignificant**: leading, trailing and repeated whitespace of any kind only
    separates tokens -/
theorem C14_whitespace (lead : List Char) (items : List (List Char × List Char))
    (hl : AllWs lead) (ht : ∀ it ∈ items, IsToken it.1 ∧ AllWs it.2) (hs : SepsOk items) :
    splitWs (renderSpec lead items) = items.map (·.1) :=
  splitWs_render lead items hl ht hs

/-- consequently two spellings with the same tokens parse identically -/
theorem C14_whitespace_parse (lead lead' : List Char) (items items' : List (List Char × List Char))
    (hl : AllWs lead) (hl' : AllWs lead')
    (ht : ∀ it ∈ items, IsToken it.1 ∧ AllWs it.2) (ht' : ∀ it ∈ items', IsToken it.1 ∧ AllWs it.2)
    (hs : SepsOk items) (hs' : SepsOk items') (heq : items.map (·.1) = items'.map (·.1)) :
    parseSpec (renderSpec lead items) = parseSpec (renderSpec lead' items') :=
  parseSpec_render_congr lead lead' items items' hl hl' ht ht' hs hs' heq

/-- **`name=` prefixes are ignored**: for an identifier `name` that does not start with `_`, in
    front of anything but `...` (which takes no decoration at all) -/
theorem C14_doc (name rest : List Char) (hn : isIdentifier name = true) (hu : name.head? ≠ some '_')
    (hr : countEq rest = 0) (hd : hasSub ['.', '.', '.'] rest = false) :
    parseTok (name ++ '=' :: rest) = parseTok rest :=
  parseTok_doc name rest hn hu hr hd

/-- **documented illegal forms are ValueError** -/
theorem C14_illegal_comma (tok : List Char) (h : tok.contains ',' = true) (hp : tok.contains '(' = false) :
    parseTok tok = none :=
  parseTok_comma tok h hp

theorem C14_illegal_trailing_hash (tok : List Char) (h : tok.getLast? = some '#') : parseTok tok = none :=
  parseTok_trailing_hash tok h

theorem C14_illegal_ellipsis_modifiers (tok : List Char) (h : hasSub ['.', '.', '.'] tok = true)
    (hne : tok ≠ ['.', '.', '.']) : parseTok tok = none :=
  parseTok_ellipsis_mods tok h hne

/-- a repeated modifier character in the modifier prefix -/
theorem C14_illegal_repeated (ms rest : List Char) (c : Char) (hc : isMod c = true)
    (hm : ∀ d ∈ ms, isMod d = true) (hin : c ∈ ms) : parseTok (ms ++ c :: rest) = none :=
  parseTok_repeated ms rest c hc hm hin

/-- modifiers that cannot apply: `*`, `_`, `?` on a fixed size; `_`, `*`, `?` on a symbolic
    expression; `#` together with `_` -/
theorem C14_illegal_modifier (ms base : List Char)
    (hm : ∀ d ∈ ms, isMod d = true) (hb : base ≠ [] ∧ isMod (base.head!) = false ∧ countEq base ≠ 1) :
    (∀ k, classify base = .fixed k → (ms.contains '*' ∨ ms.contains '_' ∨ ms.contains '?') →
        parseTok (ms ++ base) = none) ∧
    (classify base = .symbolic → (ms.contains '*' ∨ ms.contains '_' ∨ ms.contains '?') →
        parseTok (ms ++ base) = none) ∧
    (classify base = .named → ms.contains '_' → ms.contains '#' → parseTok (ms ++ base) = none) :=
  parseTok_illegal_modifier ms base hm hb

/-- two multi-axis specifiers anywhere in one specification -/
theorem C14_illegal_two_variadics (ts₁ ts₂ ts₃ : List (List Char)) (t u : List Char) (d e : PDim)
    (ht : parseTok t = some (d, true)) (hu : parseTok u = some (e, true)) (idx : Nat) (iv : Option Nat) :
    parseToks (ts₁ ++ t :: ts₂ ++ u :: ts₃) idx iv = none :=
  parseToks_two_variadics ts₁ ts₂ ts₃ t u d e ht hu idx iv

/-- **concatenation** (used for nested annotations, C15/C20): the outer string followed by the
    inner string parses to the concatenated axes, with the inner multi-axis index shifted -/
theorem C14_concat (s₁ s₂ : List Char) (d₁ d₂ : List PDim) (iv₁ iv₂ : Option Nat)
    (h₁ : parseSpec s₁ = some (d₁, iv₁)) (h₂ : parseSpec s₂ = some (d₂, iv₂))
    (hv : iv₁ = none ∨ iv₂ = none) :
    parseSpec (s₂ ++ ' ' :: s₁) =
      some (d₂ ++ d₁, match iv₂ with
                      | some i => some i
                      | none => iv₁.map (· + d₂.length)) :=
  parseSpec_concat s₁ s₂ d₁ d₂ iv₁ iv₂ h₁ h₂ hv

/-! ### the parser the source contains today

`Generated/ParserCode.lean` is the body of the `for index, elem in enumerate(dim_str.split())` loop of
`_make_array_cached`, translated statement by statement from the current Python source on every run
(harness/translate.py) into the language of `Model/ParserDsl.lean`. The three theorems below are
re-proved on every run: the code the source contains IS the model the theorems above are about. -/

set_option linter.unusedSimpArgs false

/-- one round of the translated `while True` loop is one round of the model's modifier stripping:
    for every remaining text and every combination of flags already seen -/
theorem C14_source_loop_body (e : List Char) (m : Mods) (k : Option AxKind) (iv : Option Nat) (idx : Nat) :
    Generated.parserLoopBody.run (mkSt e m k iv idx) = loopSpec e m k iv idx := by
  cases e with
  | nil => simp [Generated.parserLoopBody, PStmt.run, PCond.eval, mkSt, loopSpec, fLenZero]
  | cons c r =>
    obtain ⟨mb, mv, ma, mt⟩ := m
    simp only [Generated.parserLoopBody, PStmt.run, PCond.eval, mkSt, loopSpec, isMod, setMod, PSt.flag,
      PSt.setFlag, fLenZero, fCountEq1]
    by_cases h1 : c = '#'
    · subst h1; cases mb <;> simp
    · by_cases h2 : c = '*'
      · subst h2; cases mv <;> simp
      · by_cases h3 : c = '_'
        · subst h3; cases ma <;> simp
        · by_cases h4 : c = '?'
          · subst h4; cases mt <;> simp
          · have e1 : (c == '#') = false := by simpa using h1
            have e2 : (c == '*') = false := by simpa using h2
            have e3 : (c == '_') = false := by simpa using h3
            have e4 : (c == '?') = false := by simpa using h4
            by_cases he : (countEq (c :: r) == 1) = true
            · have he' : countEq (c :: r) = 1 := by simpa using he
              simp [e1, e2, e3, e4, he, he']
            · simp [e1, e2, e3, e4, he]

/-- **for every token**, every position and every state of `index_variadic`: running the translated loop
    body gives exactly what the model's `parseTok` (and the multi-axis bookkeeping of `parseToks`) gives —
    the same axis, the same `index_variadic`, `ValueError` in the same cases, and never any other error -/
theorem C14_source_parser (elem : List Char) (idx : Nat) (iv : Option Nat) :
    runTok Generated.parserBody elem idx iv = tokStep elem idx iv := by
  unfold runTok tokStep
  rw [parseTok_feat]
  have key := iterP_loopSpec (fun x => Generated.parserLoopBody.run x) none iv idx
    (by intro e m; exact C14_source_loop_body e m none iv idx) (elem.length + 2) elem {} (by omega)
  simp only [mkSt] at key
  cases h4 : fHasEll elem
  · -- no `...` in the token: the modifier loop runs
    cases h1 : fComma elem <;> cases h2 : fParen elem <;> cases h3 : fEndsHash elem <;>
      simp [Generated.parserBody, PStmt.run, PCond.eval, PSt.flag, PSt.setFlag, h1, h2, h3, h4]
    all_goals (
      rw [key]
      unfold loopResult
      cases hs : stripMods (elem.length + 1) elem {} with
      | none => simp [tokFinish]
      | some p =>
        obtain ⟨base, m⟩ := p
        obtain ⟨mb, mv, ma, mt⟩ := m
        simp only [tokFinish, classify_feat, mkSt]
        cases h6 : fLenZero base <;> cases h7 : fIsIdent base <;> cases h8 : parseIntLit base <;>
          cases mb <;> cases mv <;> cases ma <;> cases mt <;> cases iv <;> simp [h6, h7, h8, AxKind.same])
  · cases h1 : fComma elem <;> cases h2 : fParen elem <;> cases h3 : fEndsHash elem <;>
      cases h5 : fEqEll elem <;> cases iv <;>
      simp [Generated.parserBody, PStmt.run, PCond.eval, PSt.flag, PSt.setFlag, AxKind.same, h1, h2, h3, h4, h5]

/-- **for every specification string**: the translated code run over `dim_str.split()` yields the axes and
    the multi-axis index of `parseSpec`, or `ValueError` exactly when `parseSpec` has none — the theorems
    above (`C14_order`, `C14_whitespace`, `C14_doc`, the illegal forms, `C14_concat`) are therefore
    statements about the code -/
theorem C14_source_spec (s : List Char) :
    runSpec Generated.parserBody s = (parseSpec s).map some :=
  runSpec_eq Generated.parserBody C14_source_parser s

/-- the loop around the body is the one the model assumes (`dims = []`, `index_variadic = None`,
    `for index, elem in enumerate(dim_str.split())`, `dims = tuple(dims)`, non-strings rejected first) -/
theorem C14_source_header : Generated.parserHeaderOk = true := by decide

/-! non-vacuity / documented examples -/
example : parseSpec "#*foo".toList = parseSpec "*#foo".toList := by decide
example : parseSpec "  a   b ".toList = parseSpec "a b".toList := by decide
example : parseSpec "rows=3 cols=4".toList = parseSpec "3 4".toList := by decide
example : parseSpec "a,b".toList = none ∧ parseSpec "a#".toList = none ∧ parseSpec "##a".toList = none ∧
    parseSpec "*4".toList = none ∧ parseSpec "_4".toList = none ∧ parseSpec "?4".toList = none ∧
    parseSpec "_a+b".toList = none ∧ parseSpec "*a+b".toList = none ∧ parseSpec "?a+b".toList = none ∧
    parseSpec "#_".toList = none ∧ parseSpec "*a *b".toList = none ∧ parseSpec "#...".toList = none ∧
    parseSpec "... *a".toList = none := by decide
example : parseSpec "min(a,b) c".toList ≠ none := by decide
example : runSpec Generated.parserBody "#*foo x=3 _".toList =
    some (some ([.namedVar "foo".toList true false, .fixed 3 false, .anon], some 0)) := by decide
example : runSpec Generated.parserBody "a,b (a)".toList = none := by decide

end JV
