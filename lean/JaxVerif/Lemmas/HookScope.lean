/-
Lemmas for C11: scope of the import hook (dotted prefixes), first import decides.
-/
import JaxVerif.Model.HookScope

namespace JV

/-! ### dotted prefix -/

theorem splitDots_ne_nil (m : MName) : ∃ p ps, splitDots m = p :: ps := by
  induction m with
  | nil => exact ⟨[], [], rfl⟩
  | cons c cs ih =>
    obtain ⟨p, ps, h⟩ := ih
    by_cases hc : c = '.'
    · exact ⟨[], p :: ps, by simp [splitDots, h, hc]⟩
    · exact ⟨c :: p, ps, by simp [splitDots, h, hc]⟩

theorem splitDots_cons_dot (cs : MName) : splitDots ('.' :: cs) = [] :: splitDots cs := by
  obtain ⟨p, ps, h⟩ := splitDots_ne_nil cs
  simp [splitDots, h]

theorem splitDots_cons_ne (c : Char) (cs p : MName) (ps : List MName) (hc : c ≠ '.')
    (h : splitDots cs = p :: ps) : splitDots (c :: cs) = (c :: p) :: ps := by
  simp [splitDots, h, hc]

/-- the component lists are in the prefix relation iff the names are equal or one extends the
    other by a dot (no well-formedness needed) -/
theorem splitDots_prefix_iff (h m : MName) :
    (splitDots h).isPrefixOf (splitDots m) = true ↔ (m == h || (h ++ ['.']).isPrefixOf m) = true := by
  induction h generalizing m with
  | nil =>
    cases m with
    | nil => simp [splitDots]
    | cons d ds =>
      obtain ⟨q, qs, hq⟩ := splitDots_ne_nil ds
      by_cases hd : d = '.'
      · subst hd; rw [splitDots_cons_dot, hq]; simp [splitDots]
      · rw [splitDots_cons_ne d ds q qs hd hq]
        simp [splitDots]
        intro h; exact absurd h.symm hd
  | cons c cs ih =>
    obtain ⟨p, ps, hp⟩ := splitDots_ne_nil cs
    cases m with
    | nil =>
      by_cases hc : c = '.'
      · subst hc; rw [splitDots_cons_dot, hp]; simp [splitDots]
      · rw [splitDots_cons_ne c cs p ps hc hp]
        simp [splitDots]
    | cons d ds =>
      obtain ⟨q, qs, hq⟩ := splitDots_ne_nil ds
      have ih' := ih ds
      by_cases hc : c = '.'
      · subst hc
        by_cases hd : d = '.'
        · subst hd
          rw [splitDots_cons_dot, splitDots_cons_dot]
          simp only [List.isPrefixOf_cons_cons, beq_self_eq_true, Bool.true_and, ih']
          simp
        · rw [splitDots_cons_dot, splitDots_cons_ne d ds q qs hd hq]
          simp [hd]
          intro h; exact absurd h.symm hd
      · by_cases hd : d = '.'
        · subst hd
          rw [splitDots_cons_dot, splitDots_cons_ne c cs p ps hc hp]
          simp [hc]
          intro h; exact absurd h.symm hc
        · rw [splitDots_cons_ne c cs p ps hc hp, splitDots_cons_ne d ds q qs hd hq]
          rw [hp, hq] at ih'
          simp only [List.isPrefixOf_cons_cons] at ih' ⊢
          by_cases hcd : c = d
          · subst hcd
            simpa using ih'
          · have : ¬ d = c := fun h => hcd h.symm
            simp [hcd, this]

theorem shouldInstrument_iff_components (hooked : List MName) (m : MName)
    (_hm : ∀ c ∈ splitDots m, c ≠ []) (_hh : ∀ h ∈ hooked, ∀ c ∈ splitDots h, c ≠ []) :
    shouldInstrument hooked m = true ↔ ∃ h ∈ hooked, (splitDots h).isPrefixOf (splitDots m) = true := by
  unfold shouldInstrument
  rw [List.any_eq_true]
  constructor
  · rintro ⟨h, hmem, hh⟩; exact ⟨h, hmem, (splitDots_prefix_iff h m).2 hh⟩
  · rintro ⟨h, hmem, hh⟩; exact ⟨h, hmem, (splitDots_prefix_iff h m).1 hh⟩

/-! ### first import decides -/

theorem importStep_lookup_stable (s : ImportState) (op : ImportOp) (m : MName) (k : LoadKind)
    (h : s.loaded.lookup m = some k) : (importStep s op).loaded.lookup m = some k := by
  cases op with
  | install names checker => exact h
  | uninstall id => exact h
  | importMod m' =>
    cases hl : s.loaded.lookup m' with
    | some k' =>
      have : importStep s (.importMod m') = s := by simp only [importStep, hl]
      rw [this]; exact h
    | none =>
      simp only [importStep, hl]
      have hne : (m == m') = false := by
        cases hb : m == m' with
        | false => rfl
        | true =>
          have : m = m' := by simpa using hb
          subst this; rw [h] at hl; cases hl
      simp only [List.lookup_cons, hne]
      exact h

theorem loaded_stable (s : ImportState) (ops : List ImportOp) (m : MName) (k : LoadKind)
    (h : s.loaded.lookup m = some k) : (importRun s ops).loaded.lookup m = some k := by
  induction ops generalizing s with
  | nil => exact h
  | cons op ops ih =>
    exact ih (importStep s op) (importStep_lookup_stable s op m k h)

theorem importRun_append (s : ImportState) (ops₁ ops₂ : List ImportOp) :
    importRun s (ops₁ ++ ops₂) = importRun (importRun s ops₁) ops₂ := by
  simp [importRun, List.foldl_append]

theorem importStep_fresh (s : ImportState) (m : MName) (hf : s.loaded.lookup m = none) :
    (importStep s (.importMod m)).loaded.lookup m =
      some (match firstMatch s.metaPath m with
            | some h => .instrumented h.checker
            | none => .plain) := by
  unfold importStep
  simp only [hf, List.lookup_cons, beq_self_eq_true]
  cases firstMatch s.metaPath m <;> rfl

theorem first_import_decides (s : ImportState) (ops₁ ops₂ : List ImportOp) (m : MName)
    (hfresh : (importRun s ops₁).loaded.lookup m = none) :
    (importRun s (ops₁ ++ .importMod m :: ops₂)).loaded.lookup m =
      some (match firstMatch (importRun s ops₁).metaPath m with
            | some h => .instrumented h.checker
            | none => .plain) := by
  rw [importRun_append]
  show (importRun (importStep (importRun s ops₁) (.importMod m)) ops₂).loaded.lookup m = _
  exact loaded_stable _ ops₂ m _ (importStep_fresh _ m hfresh)

theorem firstMatch_mem (hs : List Hook) (m : MName) (h : Hook) (hh : firstMatch hs m = some h) :
    h ∈ hs := by
  induction hs with
  | nil => simp [firstMatch] at hh
  | cons a as ih =>
    unfold firstMatch at hh
    by_cases ha : shouldInstrument a.names m = true
    · rw [if_pos ha] at hh; cases hh; exact List.mem_cons_self
    · rw [if_neg ha] at hh; exact List.mem_cons_of_mem _ (ih hh)

theorem uninstall_claims_nothing (s : ImportState) (id : Nat) (m : MName) :
    firstMatch (importStep s (.uninstall id)).metaPath m =
      firstMatch (s.metaPath.filter (fun h => h.id != id)) m ∧
    (∀ h, firstMatch (importStep s (.uninstall id)).metaPath m = some h → h.id ≠ id) := by
  refine ⟨rfl, ?_⟩
  intro h hh
  have hmem := firstMatch_mem _ m h hh
  have : h ∈ s.metaPath.filter (fun h => h.id != id) := hmem
  rw [List.mem_filter] at this
  simpa using this.2

theorem no_hook_plain (s : ImportState) (m : MName) (h : s.metaPath = []) (hf : s.loaded.lookup m = none) :
    (importStep s (.importMod m)).loaded.lookup m = some .plain := by
  rw [importStep_fresh s m hf, h]
  rfl

theorem checkerKey_injective (a b : Option String) : checkerKey a = checkerKey b ↔ a = b := by
  constructor
  · intro h
    cases a with
    | none =>
      cases b with
      | none => rfl
      | some t =>
        have := congrArg String.toList h
        simp [checkerKey, String.toList_append] at this
    | some s =>
      cases b with
      | none =>
        have := congrArg String.toList h
        simp [checkerKey, String.toList_append] at this
      | some t =>
        have := congrArg String.toList h
        simp only [checkerKey, String.toList_append, List.append_cancel_left_eq, String.toList_inj] at this
        rw [this]
  · intro h; rw [h]

end JV
