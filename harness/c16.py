"""C16 — '?' axes are per-leaf-position axes of exactly one structured PyTree."""
import json
import typing

import gen_prog
import impl_prog
import progcheck
from common import Rng
from gen_prog import INT, arr_type, arr_val, ival

LEVEL = "proof"
THEOREMS = ["C16_source_label_cell", "C16_source_label_history", "C16_keys", "C16_keys_rendered", "C16_frame", "C16_errors", "C16_usable", "C16_generated_good", "C16_facts_matter", "C16_source_label",]
RULE = (
    "pairs / triples of trees with array leaves checked against PyTree[L, 'T'] (and 'S') inside one context or "
    "one decorated call, L containing '?n' / '*?v' / '?n ?m' / 'b ?n' alone or inside Union, tuple and "
    "structure-less PyTree, per-leaf sizes chosen equal / different at the same and at different positions, "
    "a plain axis of the same name bound before or after, '?' outside any structured PyTree and beneath two; "
    "the same array OBJECT at several leaf positions; the probes again after four kinds of raising checks; "
    "non-trivial = >=2 leaves and >=2 trees; distinct by (leaf type, trees, sizes)"
)
TRUSTED = ["harness/translate_storage.py (recognisers of the statements of the label / flag functions of _storage.py) and the interpreter Model/CellDsl.lean", "Lean 4 kernel", "harness/extract.py: recognition of the set/clear protocol of the two flags", "jax.tree_util flatten order", "harness/translate_tree.py (recognisers of the statements of _MetaPyTree.__instancecheck__ / _check) and the interpreter Model/TreeDsl.lean (flatten and the structure block are primitives)"]

P = {"op": "print"}


def leaf_types():
    q = arr_type("?n")
    return [
        ("?n", q),
        ("*?v", arr_type("*?v")),
        ("?n ?m", arr_type("?n ?m")),
        ("b ?n", arr_type("b ?n")),
        ("#?n", arr_type("#?n")),
        ("Union[int, ?n]", {"t": "union", "ts": [INT, q]}),
        ("Union[?n ?m, ?n]", {"t": "union", "ts": [arr_type("?n ?m"), q]}),
        # an earlier alternative binds the per-leaf axis and then fails on a later axis: the binding must not survive
        ("Union[?n 3, 3 ?n]", {"t": "union", "ts": [arr_type("?n 3"), arr_type("3 ?n")]}),
        ("Union[?n ?n, ?n ?m]", {"t": "union", "ts": [arr_type("?n ?n"), arr_type("?n ?m")]}),
        ("Union[?n 9 *?v, *?v ?n]", {"t": "union", "ts": [arr_type("?n 9 *?v"), arr_type("*?v ?n")]}),
        ("tuple[?n, int]", {"t": "tuple", "ts": [q, INT]}),
        ("PyTree[?n]", {"t": "pytree", "l": q, "s": None}),
        ("PyTree[Union[int, ?n]]", {"t": "pytree", "l": {"t": "union", "ts": [INT, q]}, "s": None}),
    ]


def mk_leaf(name, size, rng):
    if name == "?n ?m":
        return arr_val([size, size + 1])
    if name == "b ?n":
        return arr_val([7, size])
    if name == "Union[?n 3, 3 ?n]":
        return arr_val([3, size]) if rng.chance(2, 3) else arr_val([size, 3])
    if name == "Union[?n ?n, ?n ?m]":
        return arr_val([size, size + rng.below(2)])
    if name == "Union[?n 9 *?v, *?v ?n]":
        return arr_val([size + 1, 2, size])
    if name == "*?v":
        return arr_val([size] * (size % 3))
    if name == "tuple[?n, int]":
        return {"t": "tuple", "xs": [arr_val([size]), ival(0)]}
    if name.startswith("PyTree") and rng.chance(1, 2):
        return {"t": "list", "xs": [arr_val([size]), arr_val([size])] if "Union" not in name else [arr_val([size]), ival(1)]}
    if "int" in name and rng.chance(1, 4):
        return ival(5)
    return arr_val([size])


def shapes(kind):
    """container skeletons with k leaf slots"""
    return {
        1: [lambda a: {"t": "tuple", "xs": [a]}, lambda a: a],
        2: [lambda a, b: {"t": "tuple", "xs": [a, b]}, lambda a, b: {"t": "dict", "keys": ["p", "q"], "vals": [a, b]}, lambda a, b: {"t": "list", "xs": [a, {"t": "tuple", "xs": [b]}]}],
        3: [lambda a, b, c: {"t": "tuple", "xs": [a, {"t": "list", "xs": [b, c]}]}, lambda a, b, c: {"t": "list", "xs": [a, {"t": "none"}, b, c]}],
    }[kind]


def as_violation(got, want):
    gv, wv = progcheck.verdicts(got), progcheck.verdicts(want)
    go = [o.get("v") for o in got if o["o"] == "outcome"]
    wo = [o.get("v") for o in want if o["o"] == "outcome"]
    if gv != wv:
        k = next(i for i, (a, b) in enumerate(zip(gv, wv)) if a != b)
        return (f"qmark:{wv[k]}->{gv[k]}", f"check number {k} answers {gv[k]} but per-leaf-position '?' semantics require {wv[k]}")
    if go != wo:
        return (f"qmark-call:{wo}->{go}", f"the decorated call ends as {go} but must end as {wo}")
    return ("qmark-bindings", f"bindings {progcheck.last_bindings(got)} must be {progcheck.last_bindings(want)}")


def run(tier, seed, out, drv, facts):
    rng = Rng(seed, "C16")
    thorough = tier == "thorough"
    n_rand = 40000 if thorough else 500
    lts = leaf_types()
    for i in range(n_rand):
        name, lt = rng.choice(lts)
        k = rng.rng(1, 3)
        mk = rng.choice(shapes(k))
        sizes1 = [rng.rng(1, 4) for _ in range(k)]
        mode = rng.below(4)
        if mode == 0:
            sizes2 = list(sizes1)  # same position agrees
        elif mode == 1:
            sizes2 = list(sizes1)
            sizes2[rng.below(k)] += 1  # one position disagrees
        elif mode == 2:
            sizes2 = sizes1[::-1]  # permuted: disagreement unless palindromic
        else:
            sizes2 = [rng.rng(1, 4) for _ in range(k)]
        t1 = mk(*[mk_leaf(name, s, rng) for s in sizes1])
        t2 = mk(*[mk_leaf(name, s, rng) for s in sizes2])
        ann = {"t": "pytree", "l": lt, "s": "T"}
        plain = {"op": "check", "l": arr_type("n"), "x": arr_val([rng.rng(1, 4)])}
        style = rng.below(3)
        if style == 0:
            body = [{"op": "check", "l": ann, "x": t1}, P, {"op": "check", "l": ann, "x": t2}, P]
            if rng.chance(1, 2):
                body.insert(rng.choice([0, 2]), plain)
            prog = [{"op": "ctx", "body": body, "exit": "ret"}]
        elif style == 1:
            params = [{"name": "x", "ty": ann, "val": t1}, {"name": "y", "ty": ann, "val": t2}]
            if rng.chance(1, 2):
                params.insert(rng.below(3), {"name": "z", "ty": arr_type("n"), "val": arr_val([rng.rng(1, 4)])})
            prog = [{"op": "call", "kind": rng.choice(["new", "old"]), "params": params, "ret": None, "bindok": True, "notc": False, "body": [P], "exit": "ret"}]
        else:
            ann2 = {"t": "pytree", "l": lt, "s": "S"}  # a different structure name: independent
            body = [{"op": "check", "l": ann, "x": t1}, {"op": "check", "l": ann2, "x": t2}, P]
            prog = [{"op": "ctx", "body": body, "exit": "ret"}]
        got, want = progcheck.compare_program(out, drv, facts, prog, "qmark", rng=rng, as_violation=as_violation)
        out.case((name, json.dumps(t1), json.dumps(t2), style), k >= 2, sample={"leaf_type": name, "tree1": t1, "tree2": t2, "style": style, "observed": [o.get("v") for o in got if "v" in o]})
        for v in progcheck.verdicts(got):
            out.count("verdict_" + v)
    direct_cases(out)
    # broadcastable multi-axis `?` names: what a position has seen so far is the broadcast of its shapes, kept under the
    # position's own key — a third tree must agree with it, and a plain axis of the same name is somebody else
    bq = {"t": "pytree", "l": arr_type("#*?s"), "s": "T"}
    one = lambda sh: {"t": "tuple", "xs": [arr_val(sh)]}  # noqa: E731
    for third, plain_shape in (([5, 3], [7]), ([2, 3], [7]), ([1, 1], [9, 9]), ([4, 1], [2])):
        for plain_dims in ("*s", "#*s"):
            body = [{"op": "check", "l": bq, "x": one([1, 3])}, {"op": "check", "l": bq, "x": one([2, 1])}, P, {"op": "check", "l": bq, "x": one(third)}, P,
                    {"op": "check", "l": arr_type(plain_dims), "x": arr_val(plain_shape)}, P, {"op": "check", "l": bq, "x": one([2, 3])}, P]
            prog = [{"op": "ctx", "body": body, "exit": "ret"}]
            got, want = progcheck.compare_program(out, drv, facts, prog, "qmark-broadcast", rng=rng, as_violation=as_violation)
            out.case(("qmark-broadcast", json.dumps(third), plain_dims), True, sample={"third": third, "plain": plain_dims, "observed": progcheck.verdicts(got)})
    # errors: outside a structured PyTree, beneath two
    q = arr_type("?n")
    cases = [
        ("outside", [{"op": "check", "l": q, "x": arr_val([2])}]),
        ("outside-structureless", [{"op": "check", "l": {"t": "pytree", "l": q, "s": None}, "x": {"t": "tuple", "xs": [arr_val([2])]}}]),
        ("beneath-two", [{"op": "check", "l": {"t": "pytree", "l": {"t": "pytree", "l": q, "s": "S"}, "s": "T"}, "x": {"t": "tuple", "xs": [arr_val([2])]}}]),
        ("broadcast-size-1-outside", [{"op": "check", "l": arr_type("#?n"), "x": arr_val([1])}]),
        ("one-structured-two-levels", [{"op": "check", "l": {"t": "pytree", "l": {"t": "pytree", "l": q, "s": None}, "s": "T"}, "x": {"t": "tuple", "xs": [arr_val([2]), arr_val([3])]}}, P]),
    ]
    for nm, body in cases:
        for wrap_ in ("ctx", "top"):
            prog = [{"op": "ctx", "body": body, "exit": "ret"}] if wrap_ == "ctx" else body
            got, want = progcheck.compare_program(out, drv, facts, prog, "qmark-" + nm, rng=rng, as_violation=as_violation)
            out.case(("error-case", nm, wrap_), True, sample={"case": nm, "observed": progcheck.verdicts(got)})


def direct_cases(out):
    """cases the JSON program language cannot express: the SAME array object at several leaf positions, and
    the state of the '?' label after a check that raised"""
    import threading

    import jaxtyping
    from jaxtyping import Float, PyTree, jaxtyped

    Duck = impl_prog.Duck
    Q = PyTree[Float[Duck, "?n"], "T"]
    QV = PyTree[Float[Duck, "*?v"], "T"]
    w, a3, a4, a7 = Duck((3,)), Duck((3,)), Duck((4,)), Duck((7,))

    def seq(*pairs):
        res = []
        with jaxtyped("context"):
            for x, t in pairs:
                res.append(impl_prog.impl.check_once(x, t))
        return res

    shared = [
        ("same object at two positions, then per-position sizes differ at position 1", [((w, w), Q), ((a3, a4), Q)], ["T", "F"]),
        ("per-position sizes first, then the same object twice", [((a3, a4), Q), ((w, w), Q)], ["T", "F"]),
        ("same object twice agrees with equal sizes", [((w, w), Q), ((a3, Duck((3,))), Q)], ["T", "T"]),
        ("dict with a shared leaf", [({"a": w, "b": w}, Q), ({"a": a3, "b": a7}, Q)], ["T", "F"]),
        ("shared leaf, multi-axis '?'", [((w, w), QV), ((a3, a4), QV)], ["T", "F"]),
        ("shared leaf at three positions", [([w, (w, w)], Q), ([a3, (a3, a4)], Q)], ["T", "F"]),
    ]
    for name, pairs, want in shared:
        got = seq(*pairs)
        out.case(("shared-object", name), True, sample={"case": name, "verdicts": got})
        if got != want:
            out.violation("shared-object:" + name.split(",")[0].replace(" ", "-")[:40], f"{name}: verdicts {got} but every leaf POSITION has its own '?n' axis, so they must be {want}", {"direct": "shared-object"})

    # RE-ENTRANCY: while a leaf is being checked, user code that the check calls back (the leaf's `.shape`, a registered
    # node's flatten function) makes a complete decorated call of its own — the leaf's `?` label is the enclosing leaf's
    # again when that call has returned
    @jaxtyped(typechecker=None)
    def _helper_shape(shape: tuple):
        with jaxtyped("context"):
            isinstance(Duck((1,)), Float[Duck, "inner"])
        return shape

    class Boxed:
        dtype = "float32"

        def __init__(self, shape):
            self._shape = shape

        @property
        def shape(self):
            return _helper_shape(self._shape)

    QB, QBV = PyTree[Float[Boxed, "?n"], "T"], PyTree[Float[Boxed, "*?n"], "T"]
    reent = [
        ("re-entrant call from .shape, agreeing trees", [({"a": Boxed((3,)), "b": Boxed((4,))}, QB), ({"a": Boxed((3,)), "b": Boxed((4,))}, QB)], ["T", "T"]),
        ("re-entrant call from .shape, sizes swapped", [({"a": Boxed((3,)), "b": Boxed((4,))}, QB), ({"a": Boxed((4,)), "b": Boxed((3,))}, QB)], ["T", "F"]),
        ("re-entrant call from .shape, multi-axis", [((Boxed((2, 3)), Boxed((4,))), QBV), ((Boxed((2, 3)), Boxed((5,))), QBV)], ["T", "F"]),
    ]
    for name, pairs, want in reent:
        got = seq(*pairs)
        out.case(("re-entrant", name), True, sample={"case": name, "verdicts": got})
        if got != want:
            out.violation("re-entrant", f"{name}: verdicts {got}, must be {want} — a decorated call made (and finished) by the leaf's own `.shape` while the leaf is being checked "
                          f"does not take the leaf's `?` label away", {"direct": "re-entrant"})

    # the structure name is a name however it is SPELLED (blanks before and after are not part of it): two trees bound to
    # the same name share their `?` axes position by position under every pair of spellings
    for ax in ("?n", "*?n", "2 ?n"):
        def mk(sz, ax=ax):
            return Duck((2, sz)) if ax.startswith("2") else Duck((sz,))

        for sx, sy in (("T", "T"), (" T", "T"), ("T", " T"), ("T", "T "), (" T", " T "), ("T ", "T"), ("\tT", "T")):
            try:
                X, Y = PyTree[Float[Duck, ax], sx], PyTree[Float[Duck, ax], sy]
            except BaseException:  # noqa: BLE001
                continue
            got = [seq(({"a": mk(3), "b": mk(4)}, X), ({"a": mk(3), "b": mk(4)}, Y)), seq(({"a": mk(3), "b": mk(4)}, X), ({"a": mk(4), "b": mk(3)}, Y))]
            want = [["T", "T"], ["T", "F"]]
            out.case(("structure-spelling", ax, sx, sy), True, sample={"axis": ax, "spellings": [sx, sy], "verdicts": got})
            if got != want:
                out.violation("structure-spelling", f"x: PyTree[Float[{ax!r}], {sx!r}] then y: PyTree[Float[{ax!r}], {sy!r}] in one context, leaves a/b of sizes (3, 4) then (3, 4) / (4, 3): "
                              f"verdicts {got}, must be {want} (the same name, so the same leaf positions share {ax})", {"direct": "structure-spelling"})
                break

    # leaf types the typechecker looks INTO although `typing.get_args` shows nothing: a NamedTuple class (checked field by
    # field), a NewType (checked against its supertype) — a `?` axis anywhere inside the leaf type is usable, per position
    class Rec(typing.NamedTuple):
        vec: Float[Duck, "?n"]
        mat: Float[Duck, "?n 2"]

    VecT = typing.NewType("VecT", Float[Duck, "?n"])
    QR, QN = PyTree[Rec, "T"], PyTree[VecT, "T"]
    looked_into = [
        ("NamedTuple leaf type, consistent per position", [([Rec(Duck((3,)), Duck((3, 2))), Rec(Duck((4,)), Duck((4, 2)))], QR), ([Rec(Duck((3,)), Duck((3, 2))), Rec(Duck((4,)), Duck((4, 2)))], QR)], ["T", "T"]),
        ("NamedTuple leaf type, fields of one leaf disagree", [([Rec(Duck((3,)), Duck((4, 2)))], QR)], ["F"]),
        ("NamedTuple leaf type, position 1 differs in the second tree", [([Rec(Duck((3,)), Duck((3, 2))), Rec(Duck((4,)), Duck((4, 2)))], QR), ([Rec(Duck((3,)), Duck((3, 2))), Rec(Duck((5,)), Duck((5, 2)))], QR)], ["T", "F"]),
        ("NewType leaf type, per-position sizes", [((a3, a4), QN), ((Duck((3,)), Duck((4,))), QN)], ["T", "T"]),
        ("NewType leaf type, position 1 differs", [((a3, a4), QN), ((a3, a7), QN)], ["T", "F"]),
    ]
    for name, pairs, want in looked_into:
        got = seq(*pairs)
        out.case(("looked-into-leaf-type", name), True, sample={"case": name, "verdicts": got})
        if got != want:
            out.violation("looked-into:" + name.split(",")[0].replace(" ", "-")[:40], f"{name}: verdicts {got}, must be {want} (a '?' axis inside the leaf type of one structured PyTree is "
                          f"usable and belongs to the leaf position)", {"direct": "looked-into"})

    class Boom(Exception):
        pass

    class RaisingShape:
        dtype = "float32"

        @property
        def shape(self):
            raise Boom("shape")

    faults = {
        "unbound-symbolic-in-leaf": lambda: isinstance((a3,), PyTree[Float[Duck, "?n unbound_axis+1"], "S"]),
        "nested-structured-pytrees": lambda: isinstance(((a3,),), PyTree[PyTree[Float[Duck, "?n"], "S"], "T"]),
        "leaf-attribute-raises": lambda: isinstance((RaisingShape(),), PyTree[Float[typing.Any, "?n"], "S"]),
        "base-exception-from-leaf": lambda: isinstance((impl_prog.opaque_cls("raises")(),), PyTree[impl_prog.user_cls([], {"raises": "BASEEXC"}), "S"]),
    }

    def probes():
        return {
            "structured PyTree with '?' axes, consistent": seq(((a3, a4), Q), ((Duck((3,)), Duck((4,))), Q)),
            "structured PyTree with '?' axes, inconsistent": seq(((a3, a4), Q), ((a3, a7), Q)),
            "'?' outside any PyTree": [impl_prog.impl.check_once(a3, Float[Duck, "?n"])],
            "'?' inside a structure-less PyTree": [impl_prog.impl.check_once((a3,), PyTree[Float[Duck, "?n"]])],
        }

    for fname, fault in faults.items():
        box = {}

        def scenario():
            box["before"] = probes()
            try:
                fault()
                box["fault"] = "returned"
            except BaseException as e:  # noqa: BLE001
                box["fault"] = type(e).__name__
            box["after"] = probes()

        th = threading.Thread(target=scenario)
        th.start()
        th.join(120)
        out.case(("after-fault", fname), True, sample={"fault": fname, "fault_outcome": box.get("fault"), "after": box.get("after")})
        if box.get("before") != box.get("after"):
            k = next(k for k in box["before"] if box["before"][k] != box["after"].get(k))
            out.violation(f"after-fault:{fname}", f"after an earlier check ended with {box.get('fault')} ({fname}), '{k}' gives {box['after'].get(k)} instead of {box['before'][k]}", {"direct": "after-fault"})


def replay(rep, out, drv, facts):
    if "direct" in rep:
        direct_cases(out)
        return
    progcheck.compare_program(out, drv, facts, rep["program"], "replay", as_violation=as_violation)
    out.case("replay", True, sample=rep["program"])
