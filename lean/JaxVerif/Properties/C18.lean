/-
C18 — cached bytecode never makes a module run with the wrong instrumentation.
-/
import JaxVerif.Model.Cache
import JaxVerif.Generated.Hook
import JaxVerif.Source.Loader
import JaxVerif.Lemmas.Cache

namespace JV
set_option linter.unusedSimpArgs false

/-- every entry is what its tag says: written for the version it records, instrumented exactly
    with the typechecker key of its tag (plain under the default tag) -/
def CacheInv (c : Cache) : Prop :=
  ∀ k v code, cacheLookup c k = some (v, code) →
    code.version = v ∧ code.instr = (match k.2 with | .default => none | .jaxtyping key => some key)

/-- what a load must execute: code of the current source version, instrumented exactly as the
    current configuration says -/
def LoadOk (versions : String → Nat) (l : Load) (out : String × CodeDesc) : Prop :=
  out.1 = l.name ∧ out.2.version = versions l.name ∧ out.2.instr = l.hookedWith

/-- **for every history of runs** over one cache directory — any subsets of hooked modules, any
    typecheckers, any import orders with imports nested inside hooked modules, source edits in
    between, runs that write bytecode and runs that only read it (`-B`) — with the cache-name patch
    confined to the module's own `get_code` (and applied in every run), every load executes the code
    its current source and the current hook configuration call for -/
theorem C18_history (c : Cache) (hc : CacheInv c) (runs : List CacheRun) :
    let r := runHistory .getCode c runs
    CacheInv r.1 ∧ r.2.length = runs.length ∧
    ∀ i (hi : i < runs.length) (hi' : i < r.2.length),
      (r.2[i]).length = (runs[i]).loads.length ∧
      ∀ p ∈ (runs[i]).loads.zip (r.2[i]), LoadOk (runs[i]).versions p.1 p.2 :=
  history_correct c hc runs

/-- the empty cache satisfies the invariant -/
theorem C18_init : CacheInv [] := cacheInv_nil

/-- the tag carries the typechecker key: entries of different typecheckers or of the plain loader
    never collide -/
theorem C18_tags (w₁ w₂ : Bool) (l₁ l₂ : Load) (h : l₁.hookedWith ≠ l₂.hookedWith) :
    tagFor .getCode w₁ l₁ ≠ tagFor .getCode w₂ l₂ :=
  tags_distinct w₁ w₂ l₁ l₂ h

/-- the source read today puts the typechecker hash into the tag, uses one key everywhere, and compiles nothing under
    that tag that has not been through the transformer (no fallback path in `source_to_code`); where the patch is in force
    is no longer a scanned fact but proved from the translated `get_code` / `exec_module` (C18_source_get_code) -/
theorem C18_generated_good :
    Generated.cacheTagHasChecker = true ∧ Generated.hookKeyChain = "md5-everywhere" ∧
    Generated.cacheTagVersion = 9 ∧ Generated.hookAlwaysTransforms = true := by decide

/-- `_JaxtypingLoader.source_to_code`, translated from the source read today: whatever the run, the only thing compiled
    under the hook's tag is the transformed tree (Source/Loader.lean) -/
theorem C18_source_to_code (key : String) (writes : Bool) (gc : LSt → LRes) (active : Option String) :
    Generated.sourceToCodeCode.run key writes gc (LSt.fresh active) = .code ⟨true, true⟩ :=
  source_loader_to_code key writes gc active

/-- `get_code` / `exec_module`, translated from the source read today, are `tagFor .getCode` (Source/Loader.lean) -/
theorem C18_source_get_code (key : String) (writes : Bool) (active : Option String) (name : String) (inside : Option String) :
    Generated.getCodeCode.run key writes (fun _ => .crash) (LSt.fresh active) = .tag (tagFor .getCode writes ⟨name, some key, inside⟩) ∧
    Generated.execModuleCode.run key writes (Generated.getCodeCode.run key writes (fun _ => .crash)) (LSt.fresh active)
      = .norm { LSt.fresh active with got := some (tagFor .getCode writes ⟨name, some key, inside⟩), execActive := some active } ∧
    tagOfActive none = tagFor .getCode writes ⟨name, none, inside⟩ :=
  source_loader_get_code key writes active name inside

/-- with the patch spanning the whole `exec_module` a two-run history executes stale code: run 1
    hooks only `a` (which imports `b`), run 2 hooks both — `b` then runs the uninstrumented
    bytecode run 1 cached under the hook's tag -/
theorem C18_execmodule_violates :
    let v : String → Nat := fun _ => 1
    let run1 : List Load := [⟨"a", some "k", none⟩, ⟨"b", none, some "k"⟩]
    let run2 : List Load := [⟨"a", some "k", none⟩, ⟨"b", some "k", some "k"⟩]
    ((runHistory .execModule [] [⟨v, true, run1⟩, ⟨v, true, run2⟩]).2.getD 1 []).getD 1 ("", ⟨0, none⟩) = ("b", ⟨1, none⟩) ∧
    ((runHistory .getCode [] [⟨v, true, run1⟩, ⟨v, true, run2⟩]).2.getD 1 []).getD 1 ("", ⟨0, none⟩) = ("b", ⟨1, some "k"⟩) := by
  decide

/-- skipping the patch in a run that writes no bytecode is observable: run 1 imports `a` un-hooked
    and caches it; run 2 hooks `a` under `-B` — it then looks under the interpreter's own name and
    executes the plain bytecode of run 1 -/
theorem C18_nowrite_skip_violates :
    let v : String → Nat := fun _ => 1
    let run1 : CacheRun := ⟨v, true, [⟨"a", none, none⟩]⟩
    let run2 : CacheRun := ⟨v, false, [⟨"a", some "k", none⟩]⟩
    ((runHistory .getCodeIfWriting [] [run1, run2]).2.getD 1 []).getD 0 ("", ⟨0, none⟩) = ("a", ⟨1, none⟩) ∧
    ((runHistory .getCode [] [run1, run2]).2.getD 1 []).getD 0 ("", ⟨0, none⟩) = ("a", ⟨1, some "k"⟩) := by
  decide

end JV
