/-
Executable model of the array check of jaxtyping:
  `_check_dims`, `_MetaAbstractArray._check_shape`, `__instancecheck_str__`
  (jaxtyping/_array_types.py) and the memo plumbing of jaxtyping/_storage.py.
Core Lean only.
-/
import JaxVerif.Model.Bcast
import JaxVerif.Model.Tree

namespace JV

/-- memo keys: a plain axis name, or a `?name` axis at leaf `i` of structure string `t`
    (the code builds the string `"(Leaf {i} in structure {t}) {x}"`). -/
inductive Key
  | plain (x : String)
  | leaf (i : Nat) (t : String) (x : String)
  deriving DecidableEq, Repr

def Key.render : Key → String
  | .plain x => x
  | .leaf i t x => s!"(Leaf {i} in structure {t}) {x}"

/-- classes of exceptions user code may raise in the middle of a check -/
inductive Exc
  | exception      -- subclass of `Exception` (not NameError, not AnnotationError)
  | baseException  -- `BaseException` that is not an `Exception` (KeyboardInterrupt, ...)
  deriving DecidableEq, Repr

/-- symbolic axis expressions: the modelled fragment of what `eval` accepts -/
inductive Expr
  | lit (n : Int)
  | var (x : String)              -- axis name, looked up in the single-axis memo
  | hole (x : String)             -- `{x}`: f-string hole, looked up in the call's arguments
  | neg (a : Expr)
  | add (a b : Expr)
  | sub (a b : Expr)
  | mul (a b : Expr)
  | fdiv (a b : Expr)             -- Python `//`
  deriving DecidableEq, Repr

/-- value of a call argument as far as `{arg}` holes can see it -/
inductive ArgVal
  | int (n : Int)
  | raises (e : Exc)               -- formatting the argument raises
  deriving DecidableEq, Repr

/-- result of a partial computation inside a check -/
inductive Res (α : Type)
  | ok (a : α)
  | fail                  -- the check answers False
  | annErr                -- `AnnotationError`
  | exc (e : Exc)         -- some other exception propagates
  deriving Repr

def Res.bind {α β} (r : Res α) (f : α → Res β) : Res β :=
  match r with
  | .ok a => f a
  | .fail => .fail
  | .annErr => .annErr
  | .exc e => .exc e

instance : Monad Res where
  pure := .ok
  bind := Res.bind

/-- result of a walk that mutates memo dictionaries in place: when user code raises in the
    middle, `leaked` is the state of the dictionaries at that moment (what stays behind when no
    handler restores the snapshot). -/
inductive Walk (α : Type)
  | ok (a : α)
  | fail
  | annErr
  | exc (e : Exc) (leaked : α)
  deriving Repr, DecidableEq

abbrev Single := List (Key × Nat)
abbrev Variadic := List (Key × (Bool × List Nat))
abbrev Args := List (String × ArgVal)

/-- holes of an expression in textual (left-to-right) order -/
def Expr.holes : Expr → List String
  | .lit _ => []
  | .var _ => []
  | .hole x => [x]
  | .neg a => a.holes
  | .add a b | .sub a b | .mul a b | .fdiv a b => a.holes ++ b.holes

/-- the f-string pass `eval(f"f'{elem}'", arguments)`: every `{x}` is formatted, left to right,
    before anything is evaluated; a missing argument is a NameError (-> AnnotationError), user
    code raising while being formatted propagates -/
def holesPass (args : Args) : List String → Res Unit
  | [] => .ok ()
  | h :: hs =>
    match args.lookup h with
    | some (.int _) => holesPass args hs
    | some (.raises e) => .exc e
    | none => .annErr

/-- the second pass `eval(elem, single_memo)`; `NameError` becomes `AnnotationError` -/
def Expr.evalCore (args : Args) (σ : Single) : Expr → Res Int
  | .lit n => .ok n
  | .var x => match σ.lookup (.plain x) with
    | some n => .ok n
    | none => .annErr
  | .hole x => match args.lookup x with
    | some (.int n) => .ok n
    | some (.raises e) => .exc e
    | none => .annErr
  | .neg a => do let x ← a.evalCore args σ; pure (-x)
  | .add a b => do let x ← a.evalCore args σ; let y ← b.evalCore args σ; pure (x + y)
  | .sub a b => do let x ← a.evalCore args σ; let y ← b.evalCore args σ; pure (x - y)
  | .mul a b => do let x ← a.evalCore args σ; let y ← b.evalCore args σ; pure (x * y)
  | .fdiv a b => do
      let x ← a.evalCore args σ; let y ← b.evalCore args σ
      if y = 0 then .exc .exception else pure (Int.fdiv x y)

def gate (p : Res Unit) (r : Res Int) : Res Int :=
  match p with
  | .ok _ => r
  | .fail => .fail
  | .annErr => .annErr
  | .exc e => .exc e

/-- evaluation of a symbolic axis: first the f-string pass over the arguments, then `eval`
    over the single-axis memo. -/
def Expr.eval (args : Args) (σ : Single) (e : Expr) : Res Int :=
  gate (holesPass args e.holes) (e.evalCore args σ)

/-- single-axis specifiers -/
inductive Dim
  | anon
  | fixed (k : Int) (b : Bool)
  | named (x : String) (b : Bool) (tp : Bool)
  | sym (e : Expr) (b : Bool)
  deriving DecidableEq, Repr

/-- multi-axis specifiers -/
inductive VDim
  | anonVar
  | namedVar (x : String) (b : Bool) (tp : Bool)
  deriving DecidableEq, Repr

/-- the `?`-leaf label (`_treepath_storage.value`) -/
abbrev TreePath := Option (Nat × String)

/-- `get_treepath_memo() + name` / plain `name` -/
def keyOf (tp : TreePath) (x : String) (isTp : Bool) : Res Key :=
  if isTp then
    match tp with
    | none => .annErr
    | some (i, t) => .ok (.leaf i t x)
  else .ok (.plain x)

/-- one iteration of the loop of `_check_dims` -/
def checkDim (tp : TreePath) (args : Args) (σ : Single) (d : Dim) (n : Nat) : Walk Single :=
  match d with
  | .anon => .ok σ
  | .fixed k b =>
    if b && n == 1 then .ok σ
    else if k = (n : Int) then .ok σ else .fail
  | .sym e b =>
    if b && n == 1 then .ok σ
    else match e.eval args σ with
      | .ok v => if v = (n : Int) then .ok σ else .fail
      | .fail => .fail
      | .annErr => .annErr
      | .exc x => .exc x σ
  | .named x b isTp =>
    if b && n == 1 then .ok σ
    else match keyOf tp x isTp with
      | .ok key =>
        match σ.lookup key with
        | none => .ok ((key, n) :: σ)
        | some m => if m = n then .ok σ else .fail
      | .fail => .fail
      | .annErr => .annErr
      | .exc x => .exc x σ

/-- `_check_dims` on axes zipped with sizes -/
def checkDims (tp : TreePath) (args : Args) (σ : Single) : List (Dim × Nat) → Walk Single
  | [] => .ok σ
  | (d, n) :: rest =>
    match checkDim tp args σ d n with
    | .ok σ' => checkDims tp args σ' rest
    | .fail => .fail
    | .annErr => .annErr
    | .exc e l => .exc e l

/-- the four-way `*name` / `*#name` branch at the end of `_check_shape`;
    `none` = the check answers False -/
def vstep (prev : Option (Bool × List Nat)) (b : Bool) (n : List Nat) :
    Option (Bool × List Nat) :=
  match prev with
  | none => some (b, n)
  | some (true, s) =>
    match bcast n s with
    | none => none
    | some j => if !b && j != n then none else some (b, j)
  | some (false, s) =>
    if b then
      match bcast n s with
      | none => none
      | some j => if j != s then none else some (false, s)
    else if n != s then none else some (false, s)

def setVar (k : Key) (v : Bool × List Nat) : Variadic → Variadic
  | [] => [(k, v)]
  | (k', v') :: rest => if k' = k then (k, v) :: rest else (k', v') :: setVar k v rest

/-- an array annotation after parsing, split around its (at most one) multi-axis specifier -/
structure Shape where
  pre : List Dim
  var : Option (VDim × List Dim)
  deriving Repr, DecidableEq

/-- `_MetaAbstractArray._check_shape` -/
def checkShape (tp : TreePath) (args : Args) (sh : Shape) (shape : List Nat)
    (σ : Single) (ν : Variadic) : Walk (Single × Variadic) :=
  match sh.var with
  | none =>
    if shape.length != sh.pre.length then .fail
    else match checkDims tp args σ (sh.pre.zip shape) with
      | .ok σ' => .ok (σ', ν)
      | .fail => .fail | .annErr => .annErr | .exc e l => .exc e (l, ν)
  | some (v, suf) =>
    if shape.length < sh.pre.length + suf.length then .fail
    else
      let i := sh.pre.length
      let s := suf.length
      match checkDims tp args σ (sh.pre.zip (shape.take i)) with
      | .fail => .fail | .annErr => .annErr | .exc e l => .exc e (l, ν)
      | .ok σ1 =>
        match checkDims tp args σ1 (suf.zip (shape.drop (shape.length - s))) with
        | .fail => .fail | .annErr => .annErr | .exc e l => .exc e (l, ν)
        | .ok σ2 =>
          match v with
          | .anonVar => .ok (σ2, ν)
          | .namedVar x b isTp =>
            match keyOf tp x isTp with
            | .fail => .fail | .annErr => .annErr | .exc e => .exc e (σ2, ν)
            | .ok key =>
              let mid := (shape.drop i).take (shape.length - i - s)
              match vstep (ν.lookup key) b mid with
              | none => .fail
              | some st =>
                -- the code only writes the memo in two of the four branches; in the other
                -- two the stored value is unchanged, so writing it back is the identity
                .ok (σ2, setVar key st ν)

/-- what `print_bindings()` / a later check can observe of one context -/
structure Memo where
  single : Single := []
  variadic : Variadic := []
  pytree : List (String × Def) := []
  args : Args := []
  deriving Repr

/-- how a dtype category lists its dtypes -/
inductive DtypeSpec
  | any
  | names (l : List String)
  deriving Repr, DecidableEq

def DtypeSpec.accepts : DtypeSpec → String → Bool
  | .any, _ => true
  | .names l, d => l.contains d

/-- an array annotation `Dtype[ArrayType, dims]` as the checker sees it -/
structure Ann where
  dtypes : DtypeSpec
  shape : Shape
  transparent : Bool := false     -- `_skip_instancecheck`
  deriving Repr

/-- a value offered to an array check. `isInst` is the answer of
    `isinstance(obj, array_type)` (or of the `hasattr` pair for `Any`);
    `payload` stands for everything else about the object (element values …). -/
structure ArrObj where
  isInst : Bool
  dtype : String
  shape : List Nat
  payload : Nat := 0
  deriving Repr

inductive Verdict
  | T | F | ANN | EXC (e : Exc)
  deriving DecidableEq, Repr

/-- Which exceptions the handler around `_check_shape` / `PyTree._check` restores for.
    Read from the source by the translator (`except Exception:` vs `except BaseException:`). -/
inductive Catch
  | exceptionOnly | baseException
  deriving DecidableEq, Repr

def Catch.covers : Catch → Exc → Bool
  | .baseException, _ => true
  | .exceptionOnly, .exception => true
  | .exceptionOnly, .baseException => false

/-- `__instancecheck_str__` on the top-of-stack memo `m` (a throw-away empty memo when the
    stack is empty: the caller decides). Returns the verdict and the memo afterwards. -/
def instancecheck (catch_ : Catch) (flatten : Bool) (tp : TreePath) (a : Ann) (o : ArrObj)
    (m : Memo) : Verdict × Memo :=
  if a.transparent then (.T, m)
  else if !o.isInst then (.F, m)
  else if flatten then (.T, m)
  else if !a.dtypes.accepts o.dtype then (.F, m)
  else
    match checkShape tp m.args a.shape o.shape m.single m.variadic with
    | .ok (σ, ν) => (.T, { m with single := σ, variadic := ν })
    | .fail => (.F, m)
    | .annErr => (.ANN, m)      -- AnnotationError is an `Exception`: covered by either handler
    | .exc e (σ, ν) =>
      -- `_check_dims` mutates the memo dicts in place; the snapshot is put back only if
      -- the handler around `_check_shape` covers the class of the exception.
      if catch_.covers e then (.EXC e, m)
      else (.EXC e, { m with single := σ, variadic := ν })

end JV
