"""C01 — an array check decides shape exactly as the dim-string language says.

Proof: Properties/C01.lean (model of `_check_dims` / `_check_shape` = declarative `Matches`).
Tie: histories of array checks inside one context, run on the real code and on the model;
verdicts and `print_bindings()` after every step must agree.
"""
from __future__ import annotations

import gen_dims
import impl
from common import Rng

LEVEL = "proof"
THEOREMS = [
    "C01_dims_sound",
    "C01_dims_complete",
    "C01_dims_iff",
    "C01_variadic_iff",
    "C01_variadic_state",
    "C01_shape_sound",
    "C01_shape_complete",
    "C01_annerr_iff",
    "C01_instancecheck",
    "C01_rank",
    "C01_bcast_spec",
    "C01_source_check_dims",
    "C01_source_variadic",
    "C01_source_variadic_first",
    "C01_source_stages",
    "C01_source_slices",
    "C01_source_rank_tests",
    "C01_source_slices_lists",
    "C01_source_arguments",
]
RULE = (
    "histories of array checks (dim string, shape, dtype/type flags) inside one jaxtyped context or "
    "typechecker=None call; quick: every dim string of <=2 tokens over the 13-token set x every shape "
    "of rank<=3 over sizes {0,1,2,3} x 3 prior states (exhaustive), a seeded sample of 3-token strings, "
    "plus seeded random histories from the full grammar; every history of 2 and of 3 uses of one multi-axis "
    "name (`*v` / `*#v`) over a pool of 11 (quick) / 15 shapes with size-0 and size-1 axes and differing "
    "ranks (exhaustive), seeded histories of 3-4 uses with prefix / suffix axes; a case is non-trivial when the annotation "
    "builds and the value reaches the shape walk; distinct = distinct (prior, dims, shape) / history"
)
TRUSTED = [
    "Lean 4 kernel",
    "harness/extract.py (facts) and this correspondence harness",
    "numpy.broadcast_shapes (differentially tested against JV.bcast)",
    "Python eval of symbolic axes outside the modelled integer fragment (+ - * // unary minus, {arg})",
    "dict insertion order",
]

PRIORS = [
    [],
    [{"dims": "a b *v", "shape": [2, 3, 2, 1]}],
    [{"dims": "a b *#v", "shape": [3, 1, 3]}],
]


def ambiguous(op, bound_names, args):
    """zones where the statement is silent (DESIGN §6): a symbolic axis mentioning a name that is
    not bound yet / a hole that is not an argument."""
    holes = gen_dims.hole_names(op["dims"])
    if holes - set(args or {}):
        return True
    names = gen_dims.sym_names(op["dims"])
    if not (names - set(bound_names)):
        return False
    # names bound by the same walk before the symbolic axis is reached count as bound: decided here only for the plain
    # case (no multi-axis specifier, rank equal to the number of axes); a `#name` axis of size 1 binds nothing
    toks = op["dims"].split()
    if len(toks) != len(op["shape"]) or any(t == "..." or t.lstrip("#?_").startswith("*") or "=" in t for t in toks):
        return True
    seen = set(bound_names)
    for t, size in zip(toks, op["shape"]):
        if gen_dims.sym_names(t) - seen:
            return True
        base = t.lstrip("#")
        if base in gen_dims.NAMES and not (t.startswith("#") and size == 1):
            seen.add(base)
    return False


def compare(out, hist, args, got, want, tag, use_numpy=False):
    """got = implementation records, want = model records"""
    bound = set()
    for i, (g, w) in enumerate(zip(got, want)):
        op = hist[i]
        wv = w["v"]
        if wv == "UNMODELLED":
            out.count("unmodelled")
            return
        out.count("verdict_" + g["v"])
        amb = ambiguous(op, bound, args)
        if g["v"] != wv:
            rep = {"history": hist[: i + 1], "args": args, "step": i, "observed": g["v"], "required": wv, "numpy": use_numpy}
            key = f"{tag}:verdict:{op['dims']}:{op['shape']}"
            what = f"isinstance verdict {g['v']} but the dim-string semantics require {wv} for dims={op['dims']!r} shape={op['shape']} at step {i}"
            if amb or "VAL" in (g["v"], wv) or g["v"].startswith("BUILD-"):
                out.model_diff(key, what, rep)
            else:
                out.violation(key, what, rep)
            return
        if wv == "VAL":
            continue
        if "b" in g:
            gm = {"single": g["b"]["single"], "variadic": g["b"]["variadic"]}
            wm = impl.canon_model_memo(w["memo"])
            if gm != wm:
                rep = {"history": hist[: i + 1], "args": args, "step": i, "observed_bindings": gm, "required_bindings": wm}
                key = f"{tag}:bindings:{op['dims']}:{op['shape']}"
                what = f"bindings after step {i} are {gm} but must be {wm}"
                if amb:
                    out.model_diff(key, what, rep)
                else:
                    out.violation(key, what, rep)
                return
            bound = {k for k, _ in gm["single"]}


def run_batch(out, drv, hists, facts, tag, use_numpy=False):
    """hists: list of (ops, args)"""
    catch = "base" if facts["array_rollback"]["catch"] == "baseException" else "exception"
    reqs = [impl.model_history_req(ops, args, catch) for ops, args in hists]
    want = drv.ask({"cmd": "batch", "reqs": reqs})
    for (ops, args), w in zip(hists, want):
        got = impl.run_history(ops, args, use_numpy=use_numpy)
        nontriv = any(r["v"] in ("T", "F", "ANN") for r in w)
        out.case(("h", str(ops), str(args)), nontriv, sample={"history": ops, "args": args, "verdicts": [r["v"] for r in got]})
        compare(out, ops, args, got, w, tag, use_numpy)


def bcast_vs_numpy(out, drv, rng, n_random):
    import itertools

    import numpy as np

    pairs = []
    shapes = list(gen_dims.small_shapes(3))
    for a in shapes:
        for b in shapes:
            pairs.append((a, b))
    for _ in range(n_random):
        a = [rng.below(5) for _ in range(rng.below(7))]
        b = [rng.below(5) for _ in range(rng.below(7))]
        if rng.chance(1, 2) and a:
            k = rng.below(len(a) + 1)
            b = [1 if rng.chance(1, 3) else s for s in a[len(a) - k:]]
        pairs.append((a, b))
    for chunk_start in range(0, len(pairs), 2000):
        chunk = pairs[chunk_start: chunk_start + 2000]
        want = drv.ask({"cmd": "batch", "reqs": [{"cmd": "bcast", "a": a, "b": b} for a, b in chunk]})
        for (a, b), w in zip(chunk, want):
            try:
                g = list(np.broadcast_shapes(tuple(a), tuple(b)))
            except ValueError:
                g = None
            out.count("bcast_pairs")
            if g != w:
                out.model_diff(f"bcast:{a}:{b}", f"numpy.broadcast_shapes({a},{b})={g} but JV.bcast={w}", {"a": a, "b": b})
    out.evaluations += len(pairs)


VAR_POOL = [[], [1], [2], [0], [3], [1, 3], [2, 3], [1, 1], [5, 2, 3], [1, 2, 3], [2, 1], [0, 3], [1, 0], [5, 1, 3], [3, 3]]
VAR_POOL_QUICK = [[], [1], [2], [0], [1, 3], [2, 3], [5, 2, 3], [1, 2, 3], [2, 1], [1, 0], [0, 3]]


def variadic_histories(out, drv, facts, rng, thorough):
    import itertools

    pool = VAR_POOL if thorough else VAR_POOL_QUICK
    uses = [(form, sh) for form in ("*v", "*#v") for sh in pool]
    hists = []
    for n in (2, 3):
        for combo in itertools.product(uses, repeat=n):
            hists.append(([{"dims": f, "shape": s} for f, s in combo], {}))
    # four uses, and uses with a prefix / suffix axis around the multi-axis specifier: seeded
    wrapped = [("a *v", lambda s: [4] + s), ("*#v b", lambda s: s + [7]), ("#*v 2", lambda s: s + [2]), ("a *#v b", lambda s: [4] + s + [7]), ("*v", lambda s: s), ("*#v", lambda s: s)]
    for _ in range(40000 if thorough else 4000):
        n = rng.rng(3, 4)
        ops = []
        base = rng.choice(pool)
        for _k in range(n):
            d, mk = rng.choice(wrapped)
            sh = rng.choice(pool) if rng.chance(1, 2) else ([1 if rng.chance(1, 3) else x for x in base] if rng.chance(2, 3) else [rng.rng(1, 5)] + list(base))
            ops.append({"dims": d, "shape": mk(list(sh))})
        hists.append((ops, {}))
    for i in range(0, len(hists), 1500):
        run_batch(out, drv, hists[i:i + 1500], facts, "variadic")
    out.count("variadic_histories", len(hists))


ORACLE_EXPRS = ["a/2", "a/2*2", "(a+1)/2", "-a/4", "a/b", "a*b/4", "a**2", "a**0.5", "a%3", "a/1", "(a+b)/2+0.5"]


def oracle_symbolic(out):
    """symbolic axes OUTSIDE the modelled integer fragment (true division, powers, remainders): the statement itself is
    the oracle — the axis must equal the value of its expression over the bound sizes, as Python computes it; a value
    that is not a whole number equals no size"""
    import jaxtyping
    from impl import Duck

    for expr in ORACLE_EXPRS:
        for a in range(0, 7):
            for b in (1, 2, 4):
                try:
                    val = eval(expr, {"__builtins__": {}}, {"a": a, "b": b})
                except ZeroDivisionError:
                    continue
                if isinstance(val, complex):
                    continue
                for size in range(0, 6):
                    got = []

                    def body():
                        got.append(impl.check_once(Duck((a, b), "float32"), jaxtyping.Float[Duck, "a b"]))
                        got.append(impl.check_once(Duck((size,), "float32"), jaxtyping.Float[Duck, expr]))

                    with jaxtyping.jaxtyped("context"):
                        body()
                    want = "T" if val == size else "F"
                    out.case(("oracle", expr, a, b, size), True, sample={"expr": expr, "a": a, "b": b, "size": size, "value": repr(val)})
                    if got != ["T", want]:
                        out.violation(f"oracle:{expr}", f"with a={a}, b={b} the symbolic axis {expr!r} has the value {val!r}; an axis of size {size} must be "
                                      f"{'accepted' if want == 'T' else 'rejected'}, observed verdicts {got}", {"expr": expr, "a": a, "b": b, "size": size})


def call_argument_cases(out):
    """`{name}` parts are evaluated over the CURRENT CALL's arguments: every parameter of the call, those left at their
    default and those swallowed by *args / **kwargs included, under both wrappers"""
    import typeguard
    import jaxtyping
    from impl import Duck
    from jaxtyping import jaxtyped

    F = jaxtyping.Float
    # ONE annotation object per dim string, used by every call below (an alias defined once at module level, the object
    # held in a signature): its verdict depends on the arguments of the call that is current, not of an earlier one
    A_n, A_lenxs, A_bw, A_rest_kw, A_b, A_b1 = (F[Duck, "{n}"], F[Duck, "{len(xs)}"], F[Duck, "{b} {w}"], F[Duck, "{len(rest)}+{len(kw)}"],
                                               F[Duck, "{b}"], F[Duck, "{b}+1"])
    for style, deco in (("none", jaxtyped(typechecker=None)), ("typeguard", jaxtyped(typechecker=typeguard.typechecked))):
        @deco
        def star(*xs, n=3):
            return [impl.check_once(Duck((k,), "float32"), A_n) for k in (n, n + 1)] + [impl.check_once(Duck((len(xs),), "float32"), A_lenxs)]

        @deco
        def mixed(a, b=2, *rest, w=5, **kw):
            return [impl.check_once(Duck((b, w), "float32"), A_bw), impl.check_once(Duck((b + 1, w), "float32"), A_bw),
                    impl.check_once(Duck((len(rest) + len(kw),), "float32"), A_rest_kw)]

        @deco
        def plain(a, b=4):
            return [impl.check_once(Duck((b,), "float32"), A_b), impl.check_once(Duck((b,), "float32"), A_b1)]

        calls = [("star()", lambda: star(), ["T", "F", "T"]), ("star(1)", lambda: star(1), ["T", "F", "T"]), ("star(1, 2)", lambda: star(1, 2), ["T", "F", "T"]),
                 ("star(1, 2, 3, n=2)", lambda: star(1, 2, 3, n=2), ["T", "F", "T"]), ("mixed(0)", lambda: mixed(0), ["T", "F", "T"]),
                 ("mixed(0, 1, 7, 8, 9)", lambda: mixed(0, 1, 7, 8, 9), ["T", "F", "T"]), ("mixed(0, z=1, y=2, x=3, v=4)", lambda: mixed(0, z=1, y=2, x=3, v=4), ["T", "F", "T"]),
                 ("mixed(0, 3, 9, w=1, q=0)", lambda: mixed(0, 3, 9, w=1, q=0), ["T", "F", "T"]), ("plain(1)", lambda: plain(1), ["T", "F"]), ("plain(1, 2)", lambda: plain(1, 2), ["T", "F"]),
                 ("star(n=4)", lambda: star(n=4), ["T", "F", "T"]), ("star(9, 9, 9, 9, n=3)", lambda: star(9, 9, 9, 9, n=3), ["T", "F", "T"]),
                 ("mixed(0, 3)", lambda: mixed(0, 3), ["T", "F", "T"]), ("mixed(0, 2, w=6)", lambda: mixed(0, 2, w=6), ["T", "F", "T"]), ("plain(1, 5)", lambda: plain(1, 5), ["T", "F"]),
                 ("plain(1, 4)", lambda: plain(1, 4), ["T", "F"])]
        for name, call, want in calls:
            try:
                got = call()
            except BaseException as e:  # noqa: BLE001
                got = ["RAISED:" + type(e).__name__]
            out.case(("call-arguments", style, name), True, sample={"wrapper": style, "call": name, "verdicts": got})
            if got != want:
                out.violation(f"call-arguments:{style}", f"inside {name} (wrapper: {style}) the checks over the call's arguments give {got}, must give {want}",
                              {"call_arguments": name, "wrapper": style})


def annotation_reuse_cases(out):
    """one annotation OBJECT checked again under other bindings: what a symbolic axis is worth is decided by the context
    of the check, the same shape may match now and not later (no named axis in the annotation itself)"""
    from impl import Duck
    from jaxtyping import Float, Shaped, jaxtyped

    A = Float[Duck, "n"]
    S1, S2, S3, S4 = Shaped[Duck, "n+1"], Shaped[Duck, "2 n*2"], Shaped[Duck, "n-1 _ ..."], Shaped[Duck, "#n+1 3"]
    for rnd in range(2):
        for n in (3, 5, 4, 3):
            with jaxtyped("context"):
                got = [impl.check_once(Duck((n,), "float32"), A)]
                probes = [(S1, (4,)), (S1, (6,)), (S1, (5,)), (S2, (2, 6)), (S2, (2, 10)), (S2, (2, 8)), (S3, (2, 7)), (S3, (4, 7, 1)), (S3, (3, 1)), (S4, (4, 3)), (S4, (1, 3)), (S4, (6, 3))]
                want = ["T"]
                for ann, shape in probes:
                    got.append(impl.check_once(Duck(shape, "float32"), ann))
                want += ["T" if n + 1 == 4 else "F", "T" if n + 1 == 6 else "F", "T" if n + 1 == 5 else "F",
                         "T" if 2 * n == 6 else "F", "T" if 2 * n == 10 else "F", "T" if 2 * n == 8 else "F",
                         "T" if n - 1 == 2 else "F", "T" if n - 1 == 4 else "F", "T" if n - 1 == 3 else "F",
                         "T" if n + 1 == 4 else "F", "T", "T" if n + 1 == 6 else "F"]
            out.case(("annotation-reuse", rnd, n), True, sample={"n": n, "verdicts": got})
            if got != want:
                k = next(i for i, (a_, b_) in enumerate(zip(got, want)) if a_ != b_)
                what = "the binding check itself" if k == 0 else f"{probes[k - 1][0].__name__ if hasattr(probes[k - 1][0], '__name__') else probes[k - 1][0]} on shape {probes[k - 1][1]}"
                out.violation("annotation-reuse", f"with n={n} bound in a fresh context, {what} gives {got[k]} but the dim string says {want[k]} "
                              f"(the same annotation objects were checked before under other values of n)", {"annotation_reuse": n})
                return


class _ShapeOnly:
    shape = (3,)


class _DtypeOnly:
    dtype = "float32"


def not_array_like_cases(out):
    """the first stage of every check with array type `Any`: a value is matched against the dim string only if it has both
    `.shape` and `.dtype`; anything else is answered False (not an exception), whatever the dim string"""
    import typing

    import numpy as np
    from jaxtyping import Float, Shaped

    values = [("memoryview", memoryview(b"abc")), ("shape-only object", _ShapeOnly()), ("dtype-only object", _DtypeOnly()), ("np.dtype", np.dtype("float32")), ("int", 3)]
    for cat in (Float, Shaped):
        for dims in ("3", "n", "...", "", "#3 *b"):
            ann = cat[typing.Any, dims]
            for vname, v in values:
                r = impl.check_once(v, ann)
                out.case(("not-array-like", cat.__name__, dims, vname), True, sample={"value": vname, "dims": dims, "verdict": r})
                if r != "F":
                    out.violation(f"not-array-like:{vname}", f"isinstance(<{vname}>, {cat.__name__}[Any, {dims!r}]) gives {r}; a value without both .shape and .dtype is "
                                  f"not an array, the answer is False", {"not_array_like": vname})
                    return


def run(tier, seed, out, drv, facts):
    rng = Rng(seed, "C01")
    thorough = tier == "thorough"
    oracle_symbolic(out)
    call_argument_cases(out)
    annotation_reuse_cases(out)
    not_array_like_cases(out)
    # corpus first
    # 1. exhaustive small scope
    batch = []
    shapes = list(gen_dims.small_shapes(3))
    dimstrs = list(gen_dims.small_dim_strings(2))
    three = [d for d in gen_dims.small_dim_strings(3) if len(d.split()) == 3]
    three = three if thorough else rng.sample(three, 150)
    args = {"n": 2}
    for dims in dimstrs + three:
        r = len(dims.split())
        for pi, prior in enumerate(PRIORS):
            for shape in shapes:
                # skip shapes whose rank cannot reach the axis walk for 3-token strings (keeps quick fast)
                if r == 3 and not thorough and abs(len(shape) - r) > 1:
                    continue
                batch.append((prior + [{"dims": dims, "shape": shape}], args))
                if len(batch) >= 1500:
                    run_batch(out, drv, batch, facts, "small")
                    batch = []
    if batch:
        run_batch(out, drv, batch, facts, "small")
    out.count("exhaustive_small_scope_strings", len(dimstrs))
    # 2. random histories from the full grammar
    n_hist = 60000 if thorough else 2500
    batch = []
    for i in range(n_hist):
        length = rng.rng(1, 6 if thorough else 5)
        holes = {"n": rng.below(4), "m": rng.below(4)} if rng.chance(3, 4) else {}
        ops, holes = gen_dims.rand_history(rng, length, max_axes=6 if thorough else 4, max_size=5 if thorough else 3, holes=holes)
        batch.append((ops, holes))
        if len(batch) >= 1000:
            run_batch(out, drv, batch, facts, "rand", use_numpy=(i // 1000) % 4 == 3)
            batch = []
    if batch:
        run_batch(out, drv, batch, facts, "rand")
    # 3. every history of <=3 uses of one multi-axis name (`*v` / `*#v`, with and without other axes around
    #    it) over a pool of shapes with size-0 / size-1 axes and differing ranks: the four-way branch at
    #    the end of `_check_shape` and what it stores, as a function of everything seen before
    variadic_histories(out, drv, facts, rng, thorough)
    # 4. the modelled broadcast rule against numpy
    bcast_vs_numpy(out, drv, rng, 20000 if thorough else 2000)


def replay(rep, out, drv, facts):
    if "call_arguments" in rep:
        call_argument_cases(out)
        return
    if "expr" in rep:
        oracle_symbolic(out)
        return
    if "annotation_reuse" in rep:
        annotation_reuse_cases(out)
        return
    if "not_array_like" in rep:
        not_array_like_cases(out)
        return
    hist = rep["history"]
    run_batch(out, drv, [(hist, rep.get("args") or {})], facts, "replay", use_numpy=rep.get("numpy", False))
