"""C08 — PyTree[L] accepts exactly the trees all of whose leaves match L."""
import json

import jax.tree_util as jtu

import typing

import gen_dims
import impl
import gen_prog
import impl_prog
import progcheck
from common import Rng
from gen_prog import ANY, INT, STR, TUP_II, U_IS, arr_type, arr_val, ival, sval

LEVEL = "proof"
THEOREMS = ["C08_memofree_check", "C08_stateless", "C08_nested", "C08_bare", "C08_arrays", "C08_reject_binds_nothing", "C08_generated_good", "C08_source_instancecheck", "C08_source_checkL",]
RULE = (
    "quick: every tree of depth <=2 over tuple/list/dict/None with <=2 children (per leaf value pool) and "
    "seeded random trees of depth <=3 incl. namedtuples and registered nodes, x leaf types {int, str, "
    "tuple[int,int], Union[int,str], Any, a user class, arrays 'a', 'a b', '*v a', '#a'} x 3 prior "
    "contexts; for each: PyTree[L], PyTree[PyTree[L]], bare PyTree, top-level None, bindings after; "
    "every generated tree's structure is also compared with jax.tree_util; a probe set of seven trees before and "
    "after five kinds of raising checks (each in its own thread); non-trivial = the tree has a "
    "container that itself matches L, a None/empty container, or >=2 array leaves; directed: array-like registered nodes, composite leaf types, rejected trees whose early "
    "leaf UPDATED an existing broadcastable multi-axis binding, unions written X | Y with member combinations built nowhere else, bare PyTree on values that cannot be flattened; "
    "distinct by (tree, L, prior)"
)
TRUSTED = [
    "Lean 4 kernel",
    "jax.tree_util flatten order / None handling / dict key sorting (compared with the model's structure on every generated tree)",
    "the vendored typeguard for the leaf types in scope (modelled by checkL)",
    "harness/translate_tree.py (recognisers of the statements of _MetaPyTree.__instancecheck__ / _check) and the interpreter Model/TreeDsl.lean (flatten and the structure block are primitives)",
]

P = {"op": "print"}
LEAF_TYPES = [
    ("int", INT, [ival(1), sval("s")]),
    ("str", STR, [sval("s"), ival(2)]),
    ("tuple[int,int]", TUP_II, [{"t": "tuple", "xs": [ival(1), ival(2)]}, ival(3), {"t": "tuple", "xs": [ival(1)]}]),
    ("Union[int,str]", U_IS, [ival(1), sval("s"), {"t": "opaque", "tag": "Z"}]),
    ("Any", ANY, [ival(1), {"t": "opaque", "tag": "A"}]),
    ("UserA", {"t": "user", "accept": ["A"], "faults": {}}, [{"t": "opaque", "tag": "A"}, {"t": "opaque", "tag": "Z"}]),
    ("arr a", arr_type("a"), [arr_val([2]), arr_val([3]), ival(0)]),
    ("arr a b", arr_type("a b"), [arr_val([2, 3]), arr_val([2, 4]), arr_val([2])]),
    ("arr *v a", arr_type("*v a"), [arr_val([5, 2]), arr_val([2]), arr_val([6, 2])]),
    ("arr #a", arr_type("#a", cat="Float"), [arr_val([2]), arr_val([1]), arr_val([2], dtype="int32")]),
]
PRIORS = [[], [{"op": "check", "l": arr_type("a"), "x": arr_val([2])}], [{"op": "check", "l": arr_type("*v q"), "x": arr_val([5, 9])}]]


def py_structure(tree):
    return str(jtu.tree_structure(impl_prog.to_obj(tree)))


def trees_for(rng, leaves, thorough):
    out = []
    for leaf in leaves[:2]:
        out.extend(gen_prog.all_small_trees(leaf, 2 if not thorough else 2))
    seen = set()
    uniq = []
    for t in out:
        k = json.dumps(t, sort_keys=True)
        if k not in seen:
            seen.add(k)
            uniq.append(t)
    if not thorough:
        uniq = rng.sample(uniq, min(len(uniq), 60))
    for _ in range(3000 if thorough else 40):
        uniq.append(gen_prog.rand_tree(rng, 3, lambda: rng.choice(leaves)))
    return uniq


def interesting(tree, lt):
    s = json.dumps(tree)
    return '"none"' in s or '"xs": []' in s or s.count('"arr"') >= 2 or (lt["t"] == "tuple" and '"tuple"' in s)


def as_violation(got, want):
    gv, wv = progcheck.verdicts(got), progcheck.verdicts(want)
    if gv != wv:
        k = next(i for i, (a, b) in enumerate(zip(gv, wv)) if a != b)
        return (f"verdict:{wv[k]}->{gv[k]}", f"isinstance(tree, PyTree[...]) answers {gv[k]} but every-leaf-matches semantics require {wv[k]}")
    return ("bindings", f"bindings after the check are {progcheck.last_bindings(got)} but must be {progcheck.last_bindings(want)}")


def run(tier, seed, out, drv, facts):
    rng = Rng(seed, "C08")
    thorough = tier == "thorough"
    for name, lt, leaves in LEAF_TYPES:
        for tree in trees_for(rng, leaves, thorough):
            # the modelled part of jax.tree_util
            w = drv.ask({"cmd": "structure", "x": tree})
            ps = py_structure(tree)
            if w != ps:
                out.model_diff("tree-structure", f"jax.tree_util gives {ps}, the model {w}", {"tree": tree})
            for pi, prior in enumerate(PRIORS):
                if pi and lt["t"] != "arr":
                    continue
                pt = {"t": "pytree", "l": lt, "s": None}
                ptpt = {"t": "pytree", "l": pt, "s": None}
                body = prior + [{"op": "check", "l": pt, "x": tree}, P]
                prog = [{"op": "ctx", "body": body, "exit": "ret"}]
                got, want = progcheck.compare_program(out, drv, facts, prog, "pytree", rng=rng, as_violation=as_violation)
                out.case((name, json.dumps(tree, sort_keys=True), pi), interesting(tree, lt),
                         sample={"leaf_type": name, "tree": tree, "prior": pi, "verdict": progcheck.verdicts(got)[-1:]})
                out.count("verdict_" + progcheck.verdicts(got)[-1])
                # PyTree[L] and PyTree[PyTree[L]] accept the same values, with the same bindings
                prog2 = [{"op": "ctx", "body": prior + [{"op": "check", "l": ptpt, "x": tree}, P], "exit": "ret"}]
                got2, _ = impl_prog.run_program(prog2, "typeguard", rng)
                if progcheck.verdicts(got2)[-1] != progcheck.verdicts(got)[-1] or progcheck.last_bindings(got2) != progcheck.last_bindings(got):
                    out.violation(f"nested:{name}", f"PyTree[L] gives {progcheck.verdicts(got)[-1]} / {progcheck.last_bindings(got)} but PyTree[PyTree[L]] gives {progcheck.verdicts(got2)[-1]} / {progcheck.last_bindings(got2)}",
                                  {"program": prog, "nested_program": prog2})
                # bare PyTree accepts everything; rejected tree binds nothing
                if pi == 0:
                    g3, _ = impl_prog.run_program([{"op": "check", "l": {"t": "bare"}, "x": tree}, {"op": "check", "l": pt, "x": {"t": "none"}}], "typeguard", rng)
                    if progcheck.verdicts(g3) != ["T", "T"]:
                        out.violation("bare-or-none", f"bare PyTree / top-level None gave {progcheck.verdicts(g3)}", {"tree": tree})
                if progcheck.verdicts(got)[-1] == "F":
                    before = [{"op": "ctx", "body": prior + [P], "exit": "ret"}]
                    gb, _ = impl_prog.run_program(before, "typeguard", rng)
                    if progcheck.last_bindings(gb) != progcheck.last_bindings(got):
                        out.violation(f"reject-binds:{name}", f"a rejected tree changed the bindings from {progcheck.last_bindings(gb)} to {progcheck.last_bindings(got)}", {"program": prog})
    arraylike_node_cases(out)
    composite_leaf_cases(out, drv, facts, rng)
    nested_in_union_cases(out, drv, facts, rng)
    overwrite_then_reject_cases(out, drv, facts, rng)
    pep604_cases(out)
    union_history_cases(out, drv, facts, rng)
    bare_pytree_cases(out)
    zero_size_leaf_cases(out)
    leaf_type_matrix_cases(out)
    after_fault_cases(out)


def composite_leaf_cases(out, drv, facts, rng):
    """leaf types that accept both a bare array and a container of arrays sharing an axis name: a root that has the
    container's outline but is NOT itself a leaf (its first child is a bare array) is an ordinary node; trying it as a leaf
    must leave nothing behind"""
    a, v = gen_prog.arr_type, gen_prog.arr_val
    group = {"t": "union", "ts": [a("_"), {"t": "tuple", "ts": [a("n"), a("n")]}]}
    vec3, vec4 = v([3]), v([4])
    pair = {"t": "tuple", "xs": [vec4, vec4]}
    trees = [{"t": "tuple", "xs": [vec3, pair]}, {"t": "tuple", "xs": [pair, vec3]}, {"t": "list", "xs": [vec3, pair]},
             {"t": "dict", "keys": ["a", "b"], "vals": [vec3, pair]}, {"t": "tuple", "xs": [vec3, {"t": "tuple", "xs": [vec4, v([5])]}]}, pair]
    for tree in trees:
        for lt in ({"t": "pytree", "l": group, "s": None}, {"t": "pytree", "l": {"t": "pytree", "l": group, "s": None}, "s": None}):
            prog = [{"op": "ctx", "body": [{"op": "check", "l": lt, "x": tree}, P], "exit": "ret"}]
            got, want = progcheck.compare_program(out, drv, facts, prog, "composite-leaf", rng=rng, as_violation=as_violation)
            out.case(("composite-leaf", json.dumps(tree, sort_keys=True), json.dumps(lt)[:40]), True, sample={"tree": tree, "verdict": progcheck.verdicts(got)[-1:]})


def nested_in_union_cases(out, drv, facts, rng):
    """a structure-less PyTree as ONE MEMBER of a union leaf type (`PyTree[Union[PyTree[int], str]]`,
    `PyTree[Optional[PyTree[arrays]]]`): while the outer tree is flattened the inner PyTree is asked at every node
    whether that node is a leaf — a container that is not wholly a tree of the inner leaf type is a node, to be descended"""
    a, v = gen_prog.arr_type, gen_prog.arr_val
    tup = lambda *xs: {"t": "tuple", "xs": list(xs)}  # noqa: E731
    lst = lambda *xs: {"t": "list", "xs": list(xs)}  # noqa: E731
    inner_int = {"t": "pytree", "l": INT, "s": None}
    inner_arr = {"t": "pytree", "l": a("n"), "s": None}
    cases = [
        ({"t": "union", "ts": [inner_int, STR]}, [lst(ival(1), sval("a")), {"t": "dict", "keys": ["k", "s"], "vals": [tup(ival(1), ival(2)), lst(sval("a"), sval("b"))]},
                                                  lst(ival(1), tup(ival(2), sval("b"))), tup(ival(1), ival(2)), lst(ival(1), v([2]))]),
        ({"t": "union", "ts": [STR, inner_int]}, [lst(ival(1), sval("a")), tup(tup(ival(1), sval("x")), sval("b"))]),
        ({"t": "union", "ts": [inner_arr, INT]}, [{"t": "dict", "keys": ["params", "step"], "vals": [{"t": "dict", "keys": ["b", "w"], "vals": [v([3]), v([3])]}, ival(7)]},
                                                  lst(v([3]), ival(1), tup(v([3]), ival(2))), lst(v([3]), tup(v([4]), ival(2)))]),
    ]
    for lt, trees in cases:
        for tree in trees:
            outer = {"t": "pytree", "l": lt, "s": None}
            prog = [{"op": "ctx", "body": [{"op": "check", "l": outer, "x": tree}, P], "exit": "ret"}]
            got, want = progcheck.compare_program(out, drv, facts, prog, "nested-in-union", rng=rng, as_violation=as_violation)
            out.case(("nested-in-union", json.dumps(lt)[:60], json.dumps(tree, sort_keys=True)[:80]), True, sample={"leaf_type": lt, "tree": tree, "verdict": progcheck.verdicts(got)[-1:]})


def overwrite_then_reject_cases(out, drv, facts, rng):
    """a multi-axis name already bound as broadcastable is UPDATED in place by a leaf that broadcasts against it (the stored
    shape becomes the broadcast shape, the flag that of the latest annotation) — no new entry appears. A tree rejected at a
    later leaf must put the old value back, not only remove what was added"""
    a, v = gen_prog.arr_type, gen_prog.arr_val
    priors = [[{"op": "check", "l": a("*#v"), "x": v([1, 3])}], [{"op": "check", "l": a("*#v"), "x": v([1, 3])}, {"op": "check", "l": a("q"), "x": v([2])}]]
    cases = [
        (a("*#v"), [v([2, 1]), v([5])]),
        (a("*#v"), [v([2, 3]), v([4, 3]), v([1, 3])]),
        (a("*v"), [v([2, 3]), v([7])]),
        (a("*v"), [v([2, 3]), v([2, 3]), v([1, 3])]),
        (a("*#v q"), [v([4, 3, 2]), v([4, 3, 5])]),
        (a("*#v"), [v([1, 3]), v([2, 3])]),          # accepted: the update stays
    ]
    for prior in priors:
        for lt, leaves in cases:
            for shape in ("list", "dict"):
                tree = {"t": "list", "xs": leaves} if shape == "list" else {"t": "dict", "keys": ["k%d" % i for i in range(len(leaves))], "vals": leaves}
                pt = {"t": "pytree", "l": lt, "s": None}
                follow = {"op": "check", "l": a("*#v"), "x": v([4, 3])}      # broadcasts against (1, 3) only
                prog = [{"op": "ctx", "body": prior + [{"op": "check", "l": pt, "x": tree}, P, follow, P], "exit": "ret"}]
                got, want = progcheck.compare_program(out, drv, facts, prog, "overwrite-then-reject", rng=rng, as_violation=as_violation)
                out.case(("overwrite-then-reject", json.dumps(tree, sort_keys=True), json.dumps(lt)[:60], len(prior)), True,
                         sample={"tree": tree, "leaf_type": lt, "verdicts": progcheck.verdicts(got)})
                vs = progcheck.verdicts(got)
                if len(vs) >= len(prior) + 1 and vs[len(prior)] == "F":
                    before = [{"op": "ctx", "body": prior + [P], "exit": "ret"}]
                    gb, _ = impl_prog.run_program(before, "typeguard", rng)
                    mid = [o for o in got if o["o"] == "bindings"]
                    if mid and progcheck.last_bindings(gb) != mid[0]["m"]:
                        out.violation("reject-binds:overwrite", f"a rejected tree changed the bindings from {progcheck.last_bindings(gb)} to {mid[0]['m']} "
                                      f"(a broadcastable multi-axis binding updated by an early leaf was not put back)", {"program": prog})


def union_history_cases(out, drv, facts, rng):
    """a union leaf type whose members can accept the same array under different axis names: which member a leaf matches
    (hence what it binds, hence the verdict) is decided by the declared order of the members and the context — not by which
    member happened to match in an earlier, unrelated check of the SAME annotation objects (aliases defined once)"""
    import typing

    from impl import Duck
    from jaxtyping import Float, PyTree, jaxtyped

    A_, B_, N_, ANY_ = Float[Duck, "a"], Float[Duck, "b"], Float[Duck, "n"], Float[Duck, "..."]
    PU, PW = PyTree[typing.Union[A_, B_]], PyTree[typing.Union[N_, ANY_]]
    d = lambda *sh: Duck(tuple(sh), "float32")  # noqa: E731

    def probe1():
        with jaxtyped("context"):
            isinstance(d(3), B_)
            return isinstance([d(3), d(4)], PU)          # leaf 0 binds a=3 through the first member; 4 is neither a nor b

    def probe2():
        with jaxtyped("context"):
            r = isinstance([d(3)], PW)                   # first member: binds n=3
            return (r, isinstance(d(5), N_))

    def probe3():
        with jaxtyped("context"):
            return isinstance((d(2), d(2), d(7)), PU)    # a=2, a=2, then 7: not a, binds b=7

    def primers():
        with jaxtyped("context"):
            isinstance(d(5), A_)
            isinstance([d(4)], PU)                       # matched by the SECOND member
        with jaxtyped("context"):
            isinstance(d(5), N_)
            isinstance([d(9, 9)], PW)                    # matched by the second member
        with jaxtyped("context"):
            isinstance(d(1), A_)
            isinstance({"k": d(6)}, PU)

    want = [False, (True, False), True]
    for rnd, label in enumerate(("fresh", "after unrelated checks of the same annotations")):
        got = [probe1(), probe2(), probe3()]
        out.case(("union-history", rnd), True, sample={"round": label, "verdicts": repr(got)})
        if got != want:
            out.violation(f"union-history:{rnd}", f"{label}: the three probes give {got}, the declared order of the union members and the context require {want}", {"union_history": rnd})
            return
        primers()


def pep604_cases(out):
    """unions written `X | Y` (PEP 604) as leaf types, with member combinations no other case has built before (the cache of
    `PyTree[...]` is keyed by the leaf type, and `X | Y == Union[X, Y]`): every leaf must match one of the members"""
    import typing

    from jaxtyping import PyTree

    class K1:
        pass

    class K2:
        pass

    cases = [
        ("bytes | bool", bytes | bool, [[b"x", True], (b"", {"k": False})], [[b"x", 1.5], [object()], ["s"]]),
        ("complex | K1 | None", complex | K1 | None, [[1j, K1()], {"a": None, "b": (K1(),)}], [[K2()], [1j, "s"], ("x",)]),
        ("K2 | tuple[int, int]", K2 | tuple[int, int], [[K2(), (1, 2)], ((3, 4),)], [[K1()], [(1, "a")], [b"b"]]),
        ("typing.Union[bytes, K2] (reference)", typing.Union[bytes, K2], [[b"x", K2()]], [[K1()], [1.5]]),
    ]
    for name, lt, goods, bads in cases:
        try:
            ann = PyTree[lt]
        except BaseException as e:  # noqa: BLE001
            out.violation("pep604:build", f"PyTree[{name}] cannot be built: {type(e).__name__}: {e}", {"pep604": name})
            continue
        for want, trees in (("T", goods), ("F", bads)):
            for tree in trees:
                got = impl.check_once(tree, ann)
                out.case(("pep604", name, repr(tree)[:60]), True, sample={"leaf_type": name, "tree": repr(tree)[:80], "verdict": got})
                if got != want:
                    out.violation(f"pep604:{want}->{got}", f"isinstance({tree!r}, PyTree[{name}]) answers {got}; every leaf {'matches' if want == 'T' else 'must match'} "
                                  f"one of the members, so the answer must be {want}", {"pep604": name, "tree": repr(tree)})


def leaf_type_matrix_cases(out):
    """the leaf test of `PyTree[L]` for the kinds of L the typing module offers (containers, fixed and variadic tuples,
    Literal, TypedDict, NamedTuple, Type[...], Callable, Protocol, TypeVar, NewType, nested combinations): a value is a
    leaf of type L iff typeguard 2.13 (the installed package, of which `jaxtyping._typeguard` is a vendored copy) says it
    matches L. Two levels: the vendored `check_type` against the installed one on a grid of types x values, and
    `isinstance(tree, PyTree[L])` against "flatten with that leaf test, then every leaf matches" computed with the
    installed package and jax."""
    import collections
    import typing
    from typing import Any, Callable, Dict, List, Literal, NamedTuple, Optional, Sequence, Set, Tuple, Type, TypedDict, TypeVar, Union

    import jax.tree_util as jtu
    import typeguard as upstream
    from jaxtyping import PyTree
    from jaxtyping import _typeguard as vendored

    class TD(TypedDict):
        a: int
        b: str

    class TDpartial(TypedDict, total=False):
        a: int

    class NT(NamedTuple):
        x: int
        y: str

    @typing.runtime_checkable
    class HasLen(typing.Protocol):
        def __len__(self) -> int: ...

    class Base:
        pass

    class Sub(Base):
        pass

    TB = TypeVar("TB", bound=Base)
    TC = TypeVar("TC", int, str)
    UserId = typing.NewType("UserId", int)

    types = [
        ("int", int), ("float", float), ("complex", complex), ("str", str), ("bytes", bytes), ("bool", bool), ("Any", Any),
        ("Literal[1, 'a']", Literal[1, "a"]), ("Tuple[int, int]", Tuple[int, int]), ("tuple[int, str]", tuple[int, str]), ("Tuple[int, ...]", Tuple[int, ...]),
        ("Tuple[()]", Tuple[()]), ("List[int]", List[int]), ("list[str]", list[str]), ("Sequence[int]", Sequence[int]), ("Set[int]", Set[int]),
        ("Dict[str, int]", Dict[str, int]), ("dict[int, int]", dict[int, int]), ("Type[Base]", Type[Base]), ("Callable[[int], int]", Callable[[int], int]),
        ("Callable[..., Any]", Callable[..., Any]), ("Union[int, str]", Union[int, str]), ("Optional[int]", Optional[int]), ("TD", TD), ("TDpartial", TDpartial),
        ("NT", NT), ("HasLen", HasLen), ("TB", TB), ("TC", TC), ("UserId", UserId), ("Base", Base), ("Tuple[Tuple[int, int], str]", Tuple[Tuple[int, int], str]),
        ("List[Tuple[int, int]]", List[Tuple[int, int]]), ("Dict[str, List[int]]", Dict[str, List[int]]), ("Union[Tuple[int, int], List[str]]", Union[Tuple[int, int], List[str]]),
        ("Optional[TD]", Optional[TD]), ("collections.abc.Sequence", collections.abc.Sequence[int]),
    ]
    values = [
        0, 1, 2, True, 1.5, 1j, "a", "b", "", b"x", None, (), (1,), (1, 2), (1, 2, 3), (1, "a"), ("a", 1), ((1, 2), "s"), ((1,), "s"), [], [1], [1, 2], ["a"], [1, "a"],
        [(1, 2)], [(1,)], {1, 2}, {"a"}, set(), {}, {"a": 1}, {"a": 1, "b": "s"}, {"a": "x", "b": "s"}, {"a": 1, "b": 2}, {"b": "s"}, {"a": [1, 2]}, {"a": [1, "x"]}, {1: 2},
        {"a": "", "b": "s"}, {"a": 0, "b": ""}, {"a": None, "b": "s"}, {"a": 0.0, "b": "s"}, {"a": 0, "b": 0}, (0, 0), (0, ""), ("", 0), [0], [""], [0, ""], {"": 0}, {0: 0},
        NT(1, "s"), NT("s", 1), Base(), Sub(), Base, Sub, int, len, (lambda x: x), (lambda: 0), object(),
    ]

    def verdict(mod, v, t):
        try:
            mod.check_type("leaf", v, t)
            return "T"
        except TypeError:
            return "F"
        except BaseException as e:  # noqa: BLE001
            return "E:" + type(e).__name__

    for tname, t in types:
        row_v = "".join(verdict(vendored, v, t)[0] for v in values)
        row_u = "".join(verdict(upstream, v, t)[0] for v in values)
        out.case(("leaf-matrix", tname), True, sample={"leaf_type": tname, "vendored": row_v, "installed": row_u})
        if row_v != row_u:
            k = next(i for i, (a, b) in enumerate(zip(row_v, row_u)) if a != b)
            out.violation(f"leaf-matrix:{tname}", f"does {values[k]!r} match {tname}? the leaf test of PyTree (jaxtyping._typeguard) says {verdict(vendored, values[k], t)}, "
                          f"typeguard {upstream.__name__} 2.13 says {verdict(upstream, values[k], t)}", {"leaf_matrix": tname, "value": repr(values[k])})
            continue
        # ... and through PyTree[L]: trees over the values, flattened with the leaf test
        try:
            ann = PyTree[t]
        except BaseException as e:  # noqa: BLE001
            out.violation("leaf-matrix:build", f"PyTree[{tname}] cannot be built: {type(e).__name__}: {e}", {"leaf_matrix": tname})
            continue

        def is_leaf(x, t=t):
            return verdict(upstream, x, t) == "T"

        picks = [v for v, c in zip(values, row_u) if c == "T"][:3] + [v for v, c in zip(values, row_u) if c == "F"][:4]
        trees = []
        for v in picks:
            trees += [v, [v], (v, v), {"k": v}, [v, picks[0]], {"p": [picks[0]], "q": (v,)}]
        for tree in trees:
            try:
                leaves = jtu.tree_leaves(tree, is_leaf=is_leaf)
            except BaseException:  # noqa: BLE001
                continue
            want = "T" if all(is_leaf(x) for x in leaves) else "F"
            got = impl.check_once(tree, ann)
            out.case(("leaf-matrix-tree", tname, repr(tree)[:50]), True)
            if got != want:
                out.violation(f"leaf-matrix-tree:{tname}:{want}->{got}", f"isinstance({tree!r}, PyTree[{tname}]) answers {got}; flattened with the leaf test its leaves are "
                              f"{leaves!r}, so the answer must be {want}", {"leaf_matrix": tname, "tree": repr(tree)})
                break


def zero_size_leaf_cases(out):
    """array leaves with axes of extent 0: a name bound to 0 is bound — every later leaf must agree with it, in dict-key
    order, list order, nested, with a second axis, and when the 0 was bound before the tree was looked at"""
    from impl import Duck
    from jaxtyping import Float, PyTree, jaxtyped

    def a(*shape):
        return Duck(tuple(shape), "float32")

    N, ND = PyTree[Float[Duck, "n"]], PyTree[Float[Duck, "n d"]]
    cases = [
        ("n: (0,), (3,)", N, None, {"a": a(0), "b": [a(3)]}, "F"), ("n: (3,), (0,)", N, None, [a(3), a(0)], "F"), ("n: (0,), (0,)", N, None, (a(0), {"k": a(0)}), "T"),
        ("n d: (0,2), (0,2), (5,2)", ND, None, (a(0, 2), [a(0, 2), (a(5, 2), None)]), "F"), ("n d: (0,2), (0,2)", ND, None, (a(0, 2), [a(0, 2)]), "T"),
        ("n d: (2,0), (2,3)", ND, None, [a(2, 0), a(2, 3)], "F"), ("n=0 bound before; (2,), (2,)", N, a(0), [a(2), a(2)], "F"), ("n=0 bound before; (0,)", N, a(0), [a(0)], "T"),
    ]
    for name, ann, before, tree, want in cases:
        try:
            with jaxtyped("context"):
                if before is not None:
                    isinstance(before, Float[Duck, "n"])
                got = impl.check_once(tree, ann)
                after = impl.canon_bindings(impl.bindings())["single"]
        finally:
            impl_prog.residual_state(reset=True)
        out.case(("zero-size-leaf", name), True, sample={"case": name, "verdict": got, "bindings_after": after})
        if got != want:
            out.violation(f"zero-size-leaf:{want}->{got}", f"leaves {name}: isinstance(tree, PyTree[Float[...]]) answers {got}, every leaf must match with ONE value of n "
                          f"(0 is a value), so the answer is {want}; bindings afterwards {after}", {"zero_size_leaf": name})


def bare_pytree_cases(out):
    """bare `PyTree` accepts EVERYTHING, also values jax.tree_util cannot flatten (dictionaries whose keys do not compare,
    registered nodes whose flatten function raises) — it never looks inside"""
    import jax
    from jaxtyping import PyTree, jaxtyped
    import typeguard

    class Grumpy:
        pass

    def boom(_):
        raise RuntimeError("cannot flatten")

    jax.tree_util.register_pytree_node(Grumpy, boom, lambda aux, ch: Grumpy())

    @jaxtyped(typechecker=typeguard.typechecked)
    def f(x: PyTree):
        return "ran"

    for name, val in (("dict with int and str keys", {1: "x", "a": "y"}), ("dict with None key", {None: 0, "k": 1}), ("nested unsortable dict", [({2: 0, "b": 1},)]),
                      ("node whose flatten raises", Grumpy()), ("list holding such a node", [1, Grumpy()]), ("an object()", object())):
        got = impl.check_once(val, PyTree)
        try:
            r = f(val)
        except BaseException as e:  # noqa: BLE001
            r = "raised " + type(e).__name__
        out.case(("bare-pytree", name), True, sample={"value": name, "isinstance": got, "decorated_call": r})
        if got != "T" or r != "ran":
            out.violation("bare-pytree", f"bare PyTree on {name}: isinstance gives {got}, a decorated call gives {r!r}; must be T / 'ran'", {"bare_pytree": name})


def arraylike_node_cases(out):
    """a subtree that itself matches L counts as a leaf — also when it is a registered PyTree NODE (an array-like
    wrapper with `shape` / `dtype` whose children are raw buffers of other shapes): the is-leaf test decides, not
    what jax.tree_util would flatten"""
    import jax
    import jaxtyping
    from jaxtyping import Float, PyTree, jaxtyped

    class Buf:
        def __init__(self, shape, dtype="float32"):
            self.shape, self.dtype = tuple(shape), dtype

    class Masked:
        """array-like of shape (n,), stored as a (2, n) buffer and a mask"""
        def __init__(self, n):
            self.data, self.mask = Buf((2, n)), Buf((n,), "bool")
            self.shape, self.dtype = (n,), "float32"

    class Flat:
        """array-like of shape (r, c), stored as one flat buffer of r*c"""
        def __init__(self, r, c):
            self.buf = Buf((r * c,))
            self.shape, self.dtype = (r, c), "float32"

    def mk(cls, children):
        o = cls.__new__(cls)
        o.__dict__.update(children)
        return o

    jax.tree_util.register_pytree_node(Masked, lambda m: ((m.data, m.mask), (m.shape, m.dtype)), lambda aux, ch: mk(Masked, dict(data=ch[0], mask=ch[1], shape=aux[0], dtype=aux[1])))
    jax.tree_util.register_pytree_node(Flat, lambda f: ((f.buf,), (f.shape, f.dtype)), lambda aux, ch: mk(Flat, dict(buf=ch[0], shape=aux[0], dtype=aux[1])))
    cases = [
        ("tree of wrappers that match L", PyTree[Float[Masked, "n"]], (Masked(3), [Masked(3)]), "T", {"n": 3}),
        ("wrappers of different sizes", PyTree[Float[Masked, "n"]], (Masked(3), Masked(4)), "F", {}),
        ("Any: the wrapper has rank 2, its buffer rank 1", PyTree[Float[typing.Any, "n"]], {"k": Flat(2, 3)}, "F", {}),
        ("Any: the wrapper matches, its buffer would not", PyTree[Float[typing.Any, "r c"]], [Flat(2, 3), Flat(2, 3)], "T", {"r": 2, "c": 3}),
        ("a raw buffer is a leaf too", PyTree[Float[typing.Any, "n"]], (Buf((6,)), Buf((6,))), "T", {"n": 6}),
    ]
    for name, ann, tree, want, want_b in cases:
        with jaxtyped("context"):
            got = impl.check_once(tree, ann)
            b = dict(impl.canon_bindings(impl.bindings())["single"])
        out.case(("arraylike-node", name), True, sample={"case": name, "verdict": got, "bindings": b})
        if got != want or b != want_b:
            out.violation(f"arraylike-node:{want}->{got}", f"{name}: PyTree[L] must answer {want} with bindings {want_b} (every subtree matching L is a leaf), observed {got} with {b}",
                          {"arraylike_node": name})


def after_fault_cases(out):
    """an earlier check that RAISED (a registered node's flatten function, unsortable dict keys, an unbound
    structure name in a nested PyTree, a leaf whose __instancecheck__ raises) must not change which trees
    PyTree[L] accepts afterwards: probes before and after, each scenario in its own thread"""
    import threading

    import jaxtyping
    from jaxtyping import Float, PyTree

    Duck = impl_prog.Duck
    L = Float[Duck, "b c"]
    good = {"p": Duck((2, 3)), "q": [Duck((2, 3))]}
    probes = [
        ("all leaves match", good, PyTree[L]),
        ("wrong dtype leaf", {"p": Duck((2, 3)), "q": Duck((2, 3), "int32")}, PyTree[L]),
        ("wrong rank leaf", [Duck((2, 3)), Duck((2,))], PyTree[L]),
        ("inconsistent shapes", (Duck((2, 3)), Duck((2, 4))), PyTree[L]),
        ("non-array leaf", [Duck((2, 3)), 1], PyTree[L]),
        ("int leaves", [1, (2, 3)], PyTree[int]),
        ("str among int leaves", [1, ("x", 3)], PyTree[int]),
    ]

    class Boom(Exception):
        pass

    class RaisingMeta(type):
        def __instancecheck__(cls, x):
            raise Boom("leaf __instancecheck__")

    Raising = RaisingMeta("Raising", (), {})
    faults = {
        "custom-flatten-raises": lambda: isinstance(impl_prog.custom_cls("FaultNode")([1, 2], Boom), PyTree[L]),
        "unsortable-dict-keys": lambda: isinstance({1: Duck((2, 3)), "a": Duck((2, 3))}, PyTree[L]),
        "unbound-structure-name-nested": lambda: isinstance([[1]], PyTree[PyTree[int, "S T"]]),
        "leaf-instancecheck-raises": lambda: isinstance([object()], PyTree[Raising]),
        "base-exception-in-flatten": lambda: isinstance(impl_prog.custom_cls("FaultNode2")([1], impl_prog.UserBaseExc), PyTree[L]),
    }

    def vec():
        res = []
        for _, x, t in probes:
            with jaxtyping.jaxtyped("context"):
                res.append(impl_prog.impl.check_once(x, t))
        return res

    for fname, fault in faults.items():
        box = {}

        def scenario():
            box["before"] = vec()
            try:
                fault()
                box["fault"] = "returned"
            except BaseException as e:  # noqa: BLE001
                box["fault"] = type(e).__name__
            box["after"] = vec()

        th = threading.Thread(target=scenario)
        th.start()
        th.join(120)
        out.case(("after-fault", fname), True, sample={"fault": fname, "fault_outcome": box.get("fault"), "verdicts_after": box.get("after")})
        if box.get("before") != box.get("after"):
            k = next(i for i, (a, b) in enumerate(zip(box["before"], box["after"])) if a != b)
            out.violation(f"after-fault:{fname}", f"after an earlier check ended with {box.get('fault')} ({fname}), the tree '{probes[k][0]}' is answered {box['after'][k]} instead of {box['before'][k]}",
                          {"after_fault": fname})


def replay(rep, out, drv, facts):
    if "after_fault" in rep:
        after_fault_cases(out)
        return
    if "arraylike_node" in rep:
        arraylike_node_cases(out)
        return
    if "union_history" in rep:
        union_history_cases(out, drv, facts, Rng(0, "replay"))
        return
    if "pep604" in rep:
        pep604_cases(out)
        return
    if "zero_size_leaf" in rep:
        zero_size_leaf_cases(out)
        return
    if "leaf_matrix" in rep:
        leaf_type_matrix_cases(out)
        return
    if "bare_pytree" in rep:
        bare_pytree_cases(out)
        return
    progcheck.compare_program(out, drv, facts, rep["program"], "replay", as_violation=as_violation)
    out.case("replay", True, sample=rep["program"])
