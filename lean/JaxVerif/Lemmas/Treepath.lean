/-
Helper lemmas for C16: `?` axes are per-leaf-position axes of exactly one structured PyTree.
Core Lean only.
-/
import JaxVerif.Spec.Trees
import JaxVerif.Spec.Calls
import JaxVerif.Lemmas.Array

namespace JV

/-! ### keys -/

theorem keys_distinct (i j : Nat) (t u x y : String) :
    keyOf (some (i, t)) x true = .ok (.leaf i t x) ∧ keyOf (some (i, t)) x false = .ok (.plain x) ∧
    Key.leaf i t x ≠ Key.plain y ∧
    (Key.leaf i t x = Key.leaf j u y ↔ i = j ∧ t = u ∧ x = y) := by
  refine ⟨rfl, rfl, ?_, ?_⟩
  · intro h; cases h
  · rw [Key.leaf.injEq]

/-! ### errors -/

theorem treepath_errors (sk : Skel) (args : Args) (σ : Single) (x : String) (b : Bool) (n : Nat)
    (h : ¬ (b = true ∧ n = 1)) (lc : Obj → CState → CState × Verdict) (s : String) (y : Obj)
    (ys : List Obj) (i : Nat) (st : CState) (hst : st.tp.isSome = true) :
    checkDim none args σ (.named x b true) n = .annErr ∧
    leafLoop sk lc (some s) (y :: ys) i st = (st, .ANN) := by
  refine ⟨checkDim_named_ann none args σ x b true n h rfl, ?_⟩
  rw [leafLoop]
  simp only [hst, if_true]

/-! ### both flags pass through flag-transparent leaf types exactly -/

/-- the transient flags of `b` are those of `a` -/
def CFlagsEq (a b : CState) : Prop := b.tp = a.tp ∧ b.flatten = a.flatten

theorem CFlagsEq.refl (a : CState) : CFlagsEq a a := ⟨rfl, rfl⟩

theorem CFlagsEq.trans {a b c : CState} (h1 : CFlagsEq a b) (h2 : CFlagsEq b c) : CFlagsEq a c :=
  ⟨h2.1.trans h1.1, h2.2.trans h1.2⟩

def LeafEq (f : Obj → CState → CState × Verdict) : Prop := ∀ x st, CFlagsEq st (f x st).1

theorem wrapNode_fst' (k : Kind) (p : CState × FlatListRes) : (wrapNode k p).1 = p.1 := by
  rcases p with ⟨st, _ | _⟩ <;> rfl

mutual
theorem flat_flags (f : Obj → CState → CState × Verdict) (hf : LeafEq f) (u : Bool) :
    ∀ (x : Obj) (st : CState), CFlagsEq st (flat f u x st).1
  | x, st => by
    have h0 : CFlagsEq st (if u then f x st else (st, Verdict.F)).1 := by
      cases u
      · exact CFlagsEq.refl st
      · exact hf x st
    rw [flat]
    generalize (if u then f x st else (st, Verdict.F)) = r at h0
    obtain ⟨st', v⟩ := r
    cases v with
    | T => exact h0
    | ANN => exact h0
    | EXC e => exact h0
    | F =>
      cases x with
      | tuple xs => simp only [wrapNode_fst']; exact h0.trans (flatList_flags f hf u xs st')
      | list xs => simp only [wrapNode_fst']; exact h0.trans (flatList_flags f hf u xs st')
      | dict ks vs => simp only [wrapNode_fst']; exact h0.trans (flatList_flags f hf u vs st')
      | ntuple tag xs => simp only [wrapNode_fst']; exact h0.trans (flatList_flags f hf u xs st')
      | custom tag fault xs =>
        cases fault with
        | some e => exact h0
        | none => simp only [wrapNode_fst']; exact h0.trans (flatList_flags f hf u xs st')
      | none => exact h0
      | int n => exact h0
      | str s => exact h0
      | «opaque» t => exact h0
      | arr c a => exact h0
theorem flatList_flags (f : Obj → CState → CState × Verdict) (hf : LeafEq f) (u : Bool) :
    ∀ (xs : List Obj) (st : CState), CFlagsEq st (flatList f u xs st).1
  | [], st => by rw [flatList]; exact CFlagsEq.refl st
  | x :: xs, st => by
    have h1 := flat_flags f hf u x st
    rw [flatList]
    generalize flat f u x st = r at h1
    obtain ⟨st1, _ | _⟩ := r
    · dsimp only
      have h2 := flatList_flags f hf u xs st1
      generalize flatList f u xs st1 = r2 at h2
      obtain ⟨st2, _ | _⟩ := r2
      · exact h1.trans h2
      · exact h1.trans h2
    · exact h1
end

theorem leafLoop_flags (sk : Skel) (hgd : sk.treepathGuarded = true)
    (f : Obj → CState → CState × Verdict) (hf : LeafEq f) :
    ∀ (xs : List Obj) (i : Nat) (st : CState), CFlagsEq st (leafLoop sk f none xs i st).1
  | [], i, st => by rw [leafLoop]; exact CFlagsEq.refl st
  | x :: xs, i, st => by
    rw [leafLoop]
    have h1 := hf x st
    generalize f x st = r at h1
    obtain ⟨st2, v⟩ := r
    cases v <;> try exact h1
    dsimp only
    simp only [hgd, Option.isNone_none, Bool.and_self, if_true]
    exact h1.trans (leafLoop_flags sk hgd f hf xs (i + 1) st2)

theorem LeafEq_const : LeafEq (fun _ s => (s, Verdict.T)) := fun _ st => CFlagsEq.refl st

theorem pytreeCore_flags (sk : Skel)
    (hg : sk.Good ∧ sk.treepathGuarded = true ∧ sk.flattenRestores = true)
    (f : Obj → CState → CState × Verdict) (hf : LeafEq f) (leafAny : Bool) (x : Obj)
    (st : CState) : CFlagsEq st (pytreeCore sk f leafAny none x st).1 := by
  obtain ⟨⟨hfin, htin⟩, hgd, hrs⟩ := hg
  unfold pytreeCore
  simp only [hfin, htin, hgd, hrs, if_true, Option.isNone_none, Bool.and_self]
  have hflat := flat_flags f hf (!leafAny) x { st with flatten := true }
  generalize flat f (!leafAny) x { st with flatten := true } = r at hflat
  obtain ⟨st1, ⟨leaves, d⟩ | v⟩ := r
  · dsimp only
    have hcheck : LeafEq (if leafAny = true then fun _ s => (s, Verdict.T) else f) := by
      split
      · exact LeafEq_const
      · exact hf
    have hl := leafLoop_flags sk hgd _ hcheck leaves 0
      (⟨{ st1.memo with pytree := st1.memo.pytree }, st1.tp, st.flatten, st1.noCtx⟩ : CState)
    generalize leafLoop sk _ none leaves 0 _ = L at hl ⊢
    obtain ⟨st4, v⟩ := L
    have key : CFlagsEq st st4 := ⟨hl.1.trans hflat.1, hl.2⟩
    cases v <;> exact key
  · exact ⟨hflat.1, rfl⟩

theorem CFlagsEq.congr {a b a' b' : CState} (h : CFlagsEq a b) (ha1 : a'.flatten = a.flatten)
    (ha2 : a'.tp = a.tp) (hb1 : b'.flatten = b.flatten) (hb2 : b'.tp = b.tp) : CFlagsEq a' b' := by
  unfold CFlagsEq
  rw [ha1, ha2, hb1, hb2]
  exact h

theorem pytreeInstancecheck_flags (sk : Skel)
    (hg : sk.Good ∧ sk.treepathGuarded = true ∧ sk.flattenRestores = true)
    (f : Obj → CState → CState × Verdict) (hf : LeafEq f) (leafAny : Bool) (x : Obj)
    (st : CState) : CFlagsEq st (pytreeInstancecheck sk f leafAny none x st).1 := by
  unfold pytreeInstancecheck
  split
  · exact CFlagsEq.refl st
  · have h := pytreeCore_flags sk hg f hf leafAny x
      (if st.noCtx = true then { st with memo := {} } else st)
    have h1 : (if st.noCtx = true then { st with memo := {} } else st).flatten = st.flatten := by
      split <;> rfl
    have h2 : (if st.noCtx = true then { st with memo := {} } else st).tp = st.tp := by
      split <;> rfl
    dsimp only
    generalize pytreeCore sk f leafAny none x
      (if st.noCtx = true then { st with memo := {} } else st) = r at h
    obtain ⟨st1, v⟩ := r
    cases v with
    | T =>
      dsimp only
      split
      · exact h.congr h1.symm h2.symm rfl rfl
      · exact h.congr h1.symm h2.symm rfl rfl
    | F => exact h.congr h1.symm h2.symm rfl rfl
    | ANN => exact h.congr h1.symm h2.symm rfl rfl
    | EXC e =>
      dsimp only
      split
      · exact h.congr h1.symm h2.symm rfl rfl
      · exact h.congr h1.symm h2.symm rfl rfl

theorem checkLs_flags (sk : Skel) : ∀ (ts : List LType),
    (∀ t ∈ ts, ∀ x st, CFlagsEq st (checkL sk t x st).1) →
    ∀ xs st, CFlagsEq st (checkLs sk ts xs st).1
  | [], _, xs, st => by rw [checkLs]; exact CFlagsEq.refl st
  | _ :: _, _, [], st => by rw [checkLs]; exact CFlagsEq.refl st
  | t :: ts, h, x :: xs, st => by
    rw [checkLs]
    have h1 := h t (List.mem_cons_self ..) x st
    generalize checkL sk t x st = r at h1
    obtain ⟨st1, v⟩ := r
    cases v <;> try exact h1
    exact h1.trans (checkLs_flags sk ts (fun t ht => h t (List.mem_cons_of_mem _ ht)) xs st1)

theorem checkLU_flags (sk : Skel) : ∀ (ts : List LType),
    (∀ t ∈ ts, ∀ x st, CFlagsEq st (checkL sk t x st).1) →
    ∀ x st, CFlagsEq st (checkLU sk ts x st).1
  | [], _, x, st => by rw [checkLU]; exact CFlagsEq.refl st
  | t :: ts, h, x, st => by
    rw [checkLU]
    have h1 := h t (List.mem_cons_self ..) x st
    generalize checkL sk t x st = r at h1
    obtain ⟨st1, v⟩ := r
    cases v <;> try exact h1
    exact h1.trans (checkLU_flags sk ts (fun t ht => h t (List.mem_cons_of_mem _ ht)) x st1)

theorem checkL_flagsEq (sk : Skel)
    (hg : sk.Good ∧ sk.treepathGuarded = true ∧ sk.flattenRestores = true)
    (l : LType) (hl : FlagTransparent l) (x : Obj) (st : CState) :
    CFlagsEq st (checkL sk l x st).1 := by
  induction hl generalizing x st with
  | any => unfold checkL; exact CFlagsEq.refl st
  | int => unfold checkL; exact CFlagsEq.refl st
  | str => unfold checkL; exact CFlagsEq.refl st
  | noneT => unfold checkL; exact CFlagsEq.refl st
  | bare => unfold checkL; exact CFlagsEq.refl st
  | user acc f =>
    unfold checkL
    split
    · split <;> exact CFlagsEq.refl st
    · exact CFlagsEq.refl st
  | arr cls a =>
    unfold checkL
    split
    · exact CFlagsEq.refl st
    · exact CFlagsEq.refl st
  | tuple ts _ ih =>
    unfold checkL
    split
    · split
      · exact CFlagsEq.refl st
      · exact checkLs_flags sk ts ih _ st
    · split
      · exact CFlagsEq.refl st
      · exact checkLs_flags sk ts ih _ st
    · exact CFlagsEq.refl st
  | union ts _ ih =>
    unfold checkL
    exact checkLU_flags sk ts ih x st
  | pytree l _ ih =>
    unfold checkL
    exact pytreeInstancecheck_flags sk hg _ (fun y s => ih y s) _ x st

theorem checkL_flag_transparent (sk : Skel)
    (hg : sk.Good ∧ sk.treepathGuarded = true ∧ sk.flattenRestores = true)
    (l : LType) (hl : FlagTransparent l) (x : Obj) (st : CState) :
    (checkL sk l x st).1.tp = st.tp ∧ (checkL sk l x st).1.flatten = st.flatten :=
  checkL_flagsEq sk hg l hl x st

/-! ### the frame property of `_check_shape` -/

/-- two association lists agree on the keys visible at `?`-position `tp` -/
def Agree {β : Type} (tp : TreePath) (a b : List (Key × β)) : Prop :=
  ∀ k, Key.relevant tp k → a.lookup k = b.lookup k

/-- `a'` binds the keys invisible at `tp` as `a` does -/
def Keeps {β : Type} (tp : TreePath) (a a' : List (Key × β)) : Prop :=
  ∀ k, ¬ Key.relevant tp k → a'.lookup k = a.lookup k

theorem Keeps.refl {β : Type} (tp : TreePath) (a : List (Key × β)) : Keeps tp a a := fun _ _ => rfl

theorem Keeps.trans {β : Type} {tp : TreePath} {a b c : List (Key × β)} (h1 : Keeps tp a b)
    (h2 : Keeps tp b c) : Keeps tp a c := fun k hk => (h2 k hk).trans (h1 k hk)

theorem keyOf_relevant (tp : TreePath) (x : String) (isTp : Bool) (key : Key)
    (h : keyOf tp x isTp = .ok key) : Key.relevant tp key := by
  cases isTp with
  | false =>
    simp only [keyOf, Bool.false_eq_true, if_false, Res.ok.injEq] at h
    subst h
    trivial
  | true =>
    cases tp with
    | none => simp [keyOf] at h
    | some it =>
      simp only [keyOf, if_true, Res.ok.injEq] at h
      subst h
      rfl

theorem evalCore_frame (args : Args) (σ₁ σ₂ : Single)
    (h : ∀ x, σ₁.lookup (.plain x) = σ₂.lookup (.plain x)) :
    ∀ e : Expr, e.evalCore args σ₁ = e.evalCore args σ₂
  | .lit n => rfl
  | .var x => by simp only [Expr.evalCore, h x]
  | .hole x => rfl
  | .neg a => by simp only [Expr.evalCore, evalCore_frame args σ₁ σ₂ h a]
  | .add a b => by
    simp only [Expr.evalCore, evalCore_frame args σ₁ σ₂ h a, evalCore_frame args σ₁ σ₂ h b]
  | .sub a b => by
    simp only [Expr.evalCore, evalCore_frame args σ₁ σ₂ h a, evalCore_frame args σ₁ σ₂ h b]
  | .mul a b => by
    simp only [Expr.evalCore, evalCore_frame args σ₁ σ₂ h a, evalCore_frame args σ₁ σ₂ h b]
  | .fdiv a b => by
    simp only [Expr.evalCore, evalCore_frame args σ₁ σ₂ h a, evalCore_frame args σ₁ σ₂ h b]

theorem eval_frame (tp : TreePath) (args : Args) (σ₁ σ₂ : Single) (h : Agree tp σ₁ σ₂) (e : Expr) :
    e.eval args σ₁ = e.eval args σ₂ := by
  unfold Expr.eval
  rw [evalCore_frame args σ₁ σ₂ (fun x => h (.plain x) trivial) e]

/-- outcome of two walks over single-axis memos that agree on the visible keys -/
def DimRel (tp : TreePath) (σ₁ : Single) : Walk Single → Walk Single → Prop
  | .ok a, .ok b => Agree tp a b ∧ Keeps tp σ₁ a
  | .fail, .fail => True
  | .annErr, .annErr => True
  | .exc e₁ _, .exc e₂ _ => e₁ = e₂
  | _, _ => False

theorem DimRel.weaken {tp : TreePath} {σ₁ a : Single} (hk : Keeps tp σ₁ a) {w₁ w₂ : Walk Single}
    (h : DimRel tp a w₁ w₂) : DimRel tp σ₁ w₁ w₂ := by
  cases w₁ <;> cases w₂ <;> first | exact h | exact ⟨h.1, hk.trans h.2⟩

theorem checkDim_frame (tp : TreePath) (args : Args) (σ₁ σ₂ : Single) (h : Agree tp σ₁ σ₂)
    (d : Dim) (n : Nat) :
    DimRel tp σ₁ (checkDim tp args σ₁ d n) (checkDim tp args σ₂ d n) := by
  have hok : DimRel tp σ₁ (.ok σ₁) (.ok σ₂) := ⟨h, Keeps.refl tp σ₁⟩
  cases d with
  | anon => exact hok
  | fixed k b =>
    by_cases hb : b = true ∧ n = 1
    · rw [checkDim_skip tp args σ₁ _ n hb, checkDim_skip tp args σ₂ _ n hb]; exact hok
    · rw [checkDim_fixed tp args σ₁ k b n hb, checkDim_fixed tp args σ₂ k b n hb]
      split
      · exact hok
      · trivial
  | sym e b =>
    by_cases hb : b = true ∧ n = 1
    · rw [checkDim_skip tp args σ₁ _ n hb, checkDim_skip tp args σ₂ _ n hb]; exact hok
    · rw [checkDim_sym tp args σ₁ e b n hb, checkDim_sym tp args σ₂ e b n hb,
        eval_frame tp args σ₁ σ₂ h e]
      cases e.eval args σ₂ with
      | ok v =>
        dsimp only
        split
        · exact hok
        · trivial
      | fail => trivial
      | annErr => trivial
      | exc x => exact rfl
  | named x b t =>
    by_cases hb : b = true ∧ n = 1
    · rw [checkDim_skip tp args σ₁ _ n hb, checkDim_skip tp args σ₂ _ n hb]; exact hok
    · rcases keyOf_cases tp x t with ⟨key, hk⟩ | ⟨hk, _, _⟩
      · have hrel := keyOf_relevant tp x t key hk
        rw [checkDim_named_ok tp args σ₁ x b t n key hb hk,
          checkDim_named_ok tp args σ₂ x b t n key hb hk, h key hrel]
        cases σ₂.lookup key with
        | none =>
          refine ⟨fun k hkr => ?_, fun k hkr => ?_⟩
          · rw [lookup_cons_eq, lookup_cons_eq, h k hkr]
          · have hne : ¬ k = key := fun hkk => hkr (by rw [hkk]; exact hrel)
            rw [lookup_cons_eq, if_neg hne]
        | some m =>
          dsimp only
          split
          · exact hok
          · trivial
      · rw [checkDim_named_ann tp args σ₁ x b t n hb hk, checkDim_named_ann tp args σ₂ x b t n hb hk]
        trivial

theorem checkDims_frame (tp : TreePath) (args : Args) : ∀ (l : List (Dim × Nat)) (σ₁ σ₂ : Single),
    Agree tp σ₁ σ₂ → DimRel tp σ₁ (checkDims tp args σ₁ l) (checkDims tp args σ₂ l)
  | [], σ₁, σ₂, h => ⟨h, Keeps.refl tp σ₁⟩
  | (d, n) :: rest, σ₁, σ₂, h => by
    rw [checkDims_cons, checkDims_cons]
    have h1 := checkDim_frame tp args σ₁ σ₂ h d n
    generalize checkDim tp args σ₁ d n = w₁ at h1
    generalize checkDim tp args σ₂ d n = w₂ at h1
    cases w₁ <;> cases w₂ <;> first | exact h1.elim | exact h1 | skip
    rename_i a b
    exact DimRel.weaken h1.2 (checkDims_frame tp args rest a b h1.1)

/-- outcome of two `_check_shape` walks over memos that agree on the visible keys -/
def ShapeRel (tp : TreePath) (σ₁ : Single) (ν₁ : Variadic) :
    Walk (Single × Variadic) → Walk (Single × Variadic) → Prop
  | .ok a, .ok b => (Agree tp a.1 b.1 ∧ Agree tp a.2 b.2) ∧ (Keeps tp σ₁ a.1 ∧ Keeps tp ν₁ a.2)
  | .fail, .fail => True
  | .annErr, .annErr => True
  | .exc e₁ _, .exc e₂ _ => e₁ = e₂
  | _, _ => False

theorem checkShape_frame_rel (tp : TreePath) (args : Args) (sh : Shape) (shape : List Nat)
    (σ₁ σ₂ : Single) (ν₁ ν₂ : Variadic) (hσ : Agree tp σ₁ σ₂) (hν : Agree tp ν₁ ν₂) :
    ShapeRel tp σ₁ ν₁ (checkShape tp args sh shape σ₁ ν₁) (checkShape tp args sh shape σ₂ ν₂) := by
  unfold checkShape
  cases hv : sh.var with
  | none =>
    dsimp only
    split
    · trivial
    · have h1 := checkDims_frame tp args (sh.pre.zip shape) σ₁ σ₂ hσ
      generalize checkDims tp args σ₁ (sh.pre.zip shape) = w₁ at h1
      generalize checkDims tp args σ₂ (sh.pre.zip shape) = w₂ at h1
      cases w₁ <;> cases w₂ <;> first | exact h1.elim | exact h1 | skip
      exact ⟨⟨h1.1, hν⟩, ⟨h1.2, Keeps.refl tp ν₁⟩⟩
  | some vs =>
    obtain ⟨v, suf⟩ := vs
    dsimp only
    split
    · trivial
    · have h1 := checkDims_frame tp args (sh.pre.zip (shape.take sh.pre.length)) σ₁ σ₂ hσ
      generalize checkDims tp args σ₁ (sh.pre.zip (shape.take sh.pre.length)) = w₁ at h1
      generalize checkDims tp args σ₂ (sh.pre.zip (shape.take sh.pre.length)) = w₂ at h1
      cases w₁ <;> cases w₂ <;> first | exact h1.elim | exact h1 | skip
      rename_i a b
      dsimp only
      have h2 := checkDims_frame tp args (suf.zip (shape.drop (shape.length - suf.length))) a b h1.1
      generalize checkDims tp args a (suf.zip (shape.drop (shape.length - suf.length))) = u₁ at h2
      generalize checkDims tp args b (suf.zip (shape.drop (shape.length - suf.length))) = u₂ at h2
      cases u₁ <;> cases u₂ <;> first | exact h2.elim | exact h2 | skip
      rename_i c d
      dsimp only
      have hk : Keeps tp σ₁ c := h1.2.trans h2.2
      cases v with
      | anonVar => exact ⟨⟨h2.1, hν⟩, ⟨hk, Keeps.refl tp ν₁⟩⟩
      | namedVar x bb isTp =>
        dsimp only
        rcases keyOf_cases tp x isTp with ⟨key, hkey⟩ | ⟨hkey, _, _⟩
        · have hrel := keyOf_relevant tp x isTp key hkey
          rw [hkey]
          dsimp only
          rw [hν key hrel]
          cases vstep (List.lookup key ν₂) bb
              (List.take (shape.length - sh.pre.length - suf.length) (List.drop sh.pre.length shape)) with
          | none => trivial
          | some st =>
            refine ⟨⟨h2.1, fun k hkr => ?_⟩, ⟨hk, fun k hkr => ?_⟩⟩
            · rw [lookup_setVar, lookup_setVar, hν k hkr]
            · have hne : ¬ k = key := fun hkk => hkr (by rw [hkk]; exact hrel)
              rw [lookup_setVar, if_neg hne]
        · rw [hkey]
          trivial

/-- the frame property in the form the property file states it -/
theorem checkShape_frame (tp : TreePath) (args : Args) (sh : Shape) (shape : List Nat)
    (σ₁ σ₂ : Single) (ν₁ ν₂ : Variadic)
    (hσ : ∀ k, Key.relevant tp k → σ₁.lookup k = σ₂.lookup k)
    (hν : ∀ k, Key.relevant tp k → ν₁.lookup k = ν₂.lookup k) :
    match checkShape tp args sh shape σ₁ ν₁, checkShape tp args sh shape σ₂ ν₂ with
    | .ok (σ₁', ν₁'), .ok (σ₂', ν₂') =>
        (∀ k, Key.relevant tp k → σ₁'.lookup k = σ₂'.lookup k ∧ ν₁'.lookup k = ν₂'.lookup k) ∧
        (∀ k, ¬ Key.relevant tp k → σ₁'.lookup k = σ₁.lookup k ∧ ν₁'.lookup k = ν₁.lookup k)
    | .fail, .fail => True
    | .annErr, .annErr => True
    | .exc e₁ _, .exc e₂ _ => e₁ = e₂
    | _, _ => False := by
  have h := checkShape_frame_rel tp args sh shape σ₁ σ₂ ν₁ ν₂ hσ hν
  generalize checkShape tp args sh shape σ₁ ν₁ = w₁ at h
  generalize checkShape tp args sh shape σ₂ ν₂ = w₂ at h
  cases w₁ <;> cases w₂ <;> first | exact h.elim | exact h | skip
  rename_i a b
  obtain ⟨a1, a2⟩ := a
  obtain ⟨b1, b2⟩ := b
  exact ⟨fun k hk => ⟨h.1.1 k hk, h.1.2 k hk⟩, fun k hk => ⟨h.2.1 k hk, h.2.2 k hk⟩⟩

/-! ### the rendered keys are distinct -/

theorem render_leaf_toList (i : Nat) (t x : String) :
    (Key.leaf i t x).render.toList =
      "(Leaf ".toList ++ (Nat.toDigits 10 i ++ (" in structure ".toList ++ (t.toList ++ (") ".toList ++ x.toList)))) := by
  simp [Key.render, String.toList_append, toString]

/-- cut two lists at the first occurrence of a separator -/
theorem append_sep_inj {α : Type} (c : α) : ∀ (l₁ l₂ r₁ r₂ : List α), c ∉ l₁ → c ∉ l₂ →
    l₁ ++ c :: r₁ = l₂ ++ c :: r₂ → l₁ = l₂ ∧ r₁ = r₂
  | [], [], r₁, r₂, _, _, h => by simpa using h
  | [], b :: l₂, r₁, r₂, _, h2, h => by
    simp only [List.nil_append, List.cons_append, List.cons.injEq] at h
    exact absurd h.1 (fun hc => h2 (by simp [hc]))
  | a :: l₁, [], r₁, r₂, h1, _, h => by
    simp only [List.nil_append, List.cons_append, List.cons.injEq] at h
    exact absurd h.1.symm (fun hc => h1 (by simp [hc]))
  | a :: l₁, b :: l₂, r₁, r₂, h1, h2, h => by
    simp only [List.cons_append, List.cons.injEq] at h
    have := append_sep_inj c l₁ l₂ r₁ r₂ (fun hc => h1 (by simp [hc])) (fun hc => h2 (by simp [hc])) h.2
    exact ⟨by rw [h.1, this.1], this.2⟩

theorem toDigits_inj (i j : Nat) (h : Nat.toDigits 10 i = Nat.toDigits 10 j) : i = j := by
  have := congrArg (fun l => Nat.ofDigitChars 10 l 0) h
  simpa using this

theorem space_not_in_toDigits (i : Nat) : ' ' ∉ Nat.toDigits 10 i := fun h => by
  have := Nat.isDigit_of_mem_toDigits (by decide) (by decide) h
  exact absurd this (by decide)

theorem ident_head (x : String) (h : x = "" ∨ isIdentStr x = true) : ∀ r, x.toList ≠ '(' :: r := by
  intro r hx
  rcases h with rfl | h
  · simp at hx
  · unfold isIdentStr at h
    rw [hx] at h
    simp [isIdentifier, isAlpha] at h

theorem render_injective (k₁ k₂ : Key) (h₁ : k₁.WellFormed) (h₂ : k₂.WellFormed)
    (h : k₁.render = k₂.render) : k₁ = k₂ := by
  cases k₁ with
  | plain x =>
    cases k₂ with
    | plain y => simpa [Key.render] using h
    | leaf j u y =>
      exfalso
      have hl := congrArg String.toList h
      rw [render_leaf_toList] at hl
      exact ident_head x h₁ _ (by simpa [Key.render] using hl)
  | leaf i t x =>
    cases k₂ with
    | plain y =>
      exfalso
      have hl := congrArg String.toList h
      rw [render_leaf_toList] at hl
      exact ident_head y h₂ _ (by simpa [Key.render] using hl.symm)
    | leaf j u y =>
      have hl := congrArg String.toList h
      rw [render_leaf_toList, render_leaf_toList] at hl
      have hl := List.append_cancel_left hl
      have e1 : " in structure ".toList = ' ' :: "in structure ".toList := by decide
      rw [e1] at hl
      obtain ⟨hd, hr⟩ := append_sep_inj ' ' _ _ _ _ (space_not_in_toDigits i) (space_not_in_toDigits j) hl
      have hij := toDigits_inj i j hd
      have hr := List.append_cancel_left hr
      have e2 : ") ".toList = ')' :: " ".toList := by decide
      rw [e2] at hr
      obtain ⟨ht, hx⟩ := append_sep_inj ')' _ _ _ _ h₁.2 h₂.2 hr
      have hx := List.append_cancel_left hx
      rw [hij, String.toList_inj.mp ht, String.toList_inj.mp hx]

end JV
