import JaxVerif.Properties.C19

#print axioms JV.C19_parse
#print axioms JV.C19_any_case
#print axioms JV.C19_update
#print axioms JV.C19_disabled_equiv
#print axioms JV.C19_toggle
#print axioms JV.C19_generated_good
#print axioms JV.C19_late_test_differs
#print axioms JV.C19_source_disabled
#print axioms JV.C19_source_parse
#print axioms JV.C19_source_update
