/-
C06 — threads never see each other's bindings or transient check state.
The theorem is about interleavings of *steps*, where a step is an arbitrary function of the three
storage cells as the running thread sees them: it holds for every decomposition of a workload into
steps (one storage access, one bytecode, one whole check), so no finer interleaving than the one
modelled can expose more. What it cannot exhibit: CPython's `threading.local` implementation, the
GIL and C extensions — those are in the trusted base (partial).
-/
import JaxVerif.Lemmas.Threads
import JaxVerif.Generated.Storage
import JaxVerif.Source.Storage

namespace JV

/-- the kinds of the three cells as read from the current `_storage.py` -/
def generatedKinds : Kinds :=
  { shape := (Generated.storageCells.lookup "_shape_storage").getD false
    treepath := (Generated.storageCells.lookup "_treepath_storage").getD false
    treeflatten := (Generated.storageCells.lookup "_treeflatten_storage").getD false }

/-- every mutable module-level cell of `_storage.py` is a `threading.local()`, and the three cells
    the check path uses are among them -/
theorem C06_kinds :
    generatedKinds.allLocal = true ∧ Generated.storageCells.all (·.2) = true ∧
    Generated.storageCells.length = 3 := by decide

/-- outside `_storage.py` the package holds no process-wide mutable state but what is listed here: construction-time
    caches of annotation classes (`lru_cache` on `_make_array_cached` / `PyTree.__getitem__` / the module `__getattr__`),
    the constant dtype-name tables, the typechecker table of the import hook, and two flags written once. None of them
    is read or written by `isinstance` / by the wrappers while a check is in progress; a new entry (a scratch dictionary
    shared by all threads, a verdict cache, a registry) is a new channel between threads, calls and checks and makes this
    theorem fail -/
theorem C06_no_other_shared_state :
    Generated.processGlobalState = knownGlobalState := by
  decide

/-- **isolation under every interleaving**: with thread-local cells, for every family of thread
    programs (any number of threads, any steps), every initial world and EVERY schedule, what a
    thread observes — its cells, its position, its transcript of verdicts and bindings — is what it
    observes running alone for as many steps as the schedule gave it -/
theorem C06_noninterference {Obs : Type} (k : Kinds) (hk : k.allLocal = true)
    (progs : Nat → List (Step Obs)) (w₀ : World) (sched : List Nat) (t : Nat) :
    (runSched k progs { w := w₀, pc := fun _ => 0, trace := fun _ => [] } sched).viewOf t =
      soloRun (progs t) (sched.count t) (w₀.locals t, 0, []) := by
  rw [runSched_project k hk progs t sched _ _ rfl, filter_eq_replicate, runSched_replicate k hk]
  rfl

/-- the same for the cells read from the source today -/
theorem C06_generated {Obs : Type} (progs : Nat → List (Step Obs)) (w₀ : World) (sched : List Nat) (t : Nat) :
    (runSched generatedKinds progs { w := w₀, pc := fun _ => 0, trace := fun _ => [] } sched).viewOf t =
      soloRun (progs t) (sched.count t) (w₀.locals t, 0, []) :=
  C06_noninterference generatedKinds C06_kinds.1 progs w₀ sched t

/-- in particular two schedules that give `t` the same number of steps are indistinguishable to `t` -/
theorem C06_schedule_independent {Obs : Type} (k : Kinds) (hk : k.allLocal = true)
    (progs : Nat → List (Step Obs)) (w₀ : World) (s₁ s₂ : List Nat) (t : Nat) (h : s₁.count t = s₂.count t) :
    (runSched k progs { w := w₀, pc := fun _ => 0, trace := fun _ => [] } s₁).viewOf t =
    (runSched k progs { w := w₀, pc := fun _ => 0, trace := fun _ => [] } s₂).viewOf t := by
  rw [C06_noninterference k hk, C06_noninterference k hk, h]

/-! ### each cell matters: with any one of them process-global a two-thread schedule exists on which
    thread 0 observes something it never observes alone -/

private def w0 : World := { shared := {}, locals := fun _ => {} }
private def run0 : Run Nat := { w := w0, pc := fun _ => 0, trace := fun _ => [] }

/-- thread 0 switches flatten mode on and later looks at it; thread 1 switches it off -/
private def flattenProgs : Nat → List (Step Nat)
  | 0 => [fun c => ({ c with flatten := true }, []), fun c => (c, [if c.flatten then 1 else 0])]
  | _ => [fun c => ({ c with flatten := false }, [])]

/-- thread 0 labels a leaf and later reads the label; thread 1 clears it -/
private def treepathProgs : Nat → List (Step Nat)
  | 0 => [fun c => ({ c with tp := some (0, "T") }, []), fun c => (c, [if c.tp.isSome then 1 else 0])]
  | _ => [fun c => ({ c with tp := none }, [])]

/-- thread 0 opens a context and later counts the open contexts; thread 1 closes one -/
private def stackProgs : Nat → List (Step Nat)
  | 0 => [fun c => ({ c with stack := {} :: c.stack }, []), fun c => (c, [c.stack.length])]
  | _ => [fun c => ({ c with stack := c.stack.tail }, [])]

theorem C06_sensitive :
    -- alone, and under every schedule with thread-local cells, thread 0 reads back what it wrote
    (runSched ⟨true, true, true⟩ flattenProgs run0 [0, 1, 0]).trace 0 = [1] ∧
    (runSched ⟨true, true, true⟩ treepathProgs run0 [0, 1, 0]).trace 0 = [1] ∧
    (runSched ⟨true, true, true⟩ stackProgs run0 [0, 1, 0]).trace 0 = [1] ∧
    -- with one cell process-global it reads thread 1's write
    (runSched ⟨true, true, false⟩ flattenProgs run0 [0, 1, 0]).trace 0 = [0] ∧
    (runSched ⟨true, false, true⟩ treepathProgs run0 [0, 1, 0]).trace 0 = [0] ∧
    (runSched ⟨false, true, true⟩ stackProgs run0 [0, 1, 0]).trace 0 = [0] := by
  decide

/-- the four binding-stack functions, translated from the source read today: what each does is a function of the
    calling thread's own `threading.local()` cell and of its arguments only — the translator accepts no other place to
    keep the stack (a class attribute, a captured `vars(...)` dict, a module-level list become `.unknown`) -/
theorem C06_source_storage (ctx : SCtx) (st : TState) (cell : Option (List Memo)) (h : st.stack = cell.getD []) :
    (∃ src, runStorageFn Generated.storageFuns ctx Generated.getShapeMemoCode cell = some (cell, .frame src) ∧
            resolve ctx (topMemo st) src = topMemo st) ∧
    ((runStorageFn Generated.storageFuns ctx Generated.setShapeMemoCode cell).map (fun r => r.1.getD [])
        = some (match st.stack with | [] => [] | _ :: r => ctx.M :: r)) ∧
    ((runStorageFn Generated.storageFuns ctx Generated.pushShapeMemoCode cell).map (fun r => r.1.getD [])
        = some ({ args := ctx.A } :: st.stack)) ∧
    (st.stack ≠ [] → (runStorageFn Generated.storageFuns ctx Generated.popShapeMemoCode cell).map (fun r => r.1.getD [])
        = some (popStack st).stack) :=
  source_storage_model ctx st cell h

/-- the two one-value cells, translated from the source read today: each function reads and writes only the calling
    thread's own `threading.local()` cell (the translator accepts no other place to keep the label or the flag, and no
    initialisation at import time, which would exist on the importing thread only) -/
theorem C06_source_cells (ctx : KCtx) (tp fl : Option KVal) (htp : TreepathCellOk tp) (hfl : FlattenCellOk fl) :
    (runCellFn Generated.treepathFuns ctx Generated.clearTreepathCode tp = some (some .none, .inl .none) ∧
     runCellFn Generated.treepathFuns ctx Generated.getTreepathCode tp
       = (match tp with | some (.label i S) => some (tp, .inl (.label i S)) | _ => some (tp, .inr ()))) ∧
    runCellFn Generated.treeflattenFuns ctx Generated.getTreeflattenCode fl = some (fl, .inl (.bool (flattenOfCell fl))) :=
  ⟨⟨(source_cell_treepath ctx tp htp).1, (source_cell_treepath ctx tp htp).2.2⟩, (source_cell_flatten ctx fl hfl).2.2⟩

end JV
