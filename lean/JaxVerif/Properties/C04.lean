/-
C04 — a failed or raising check binds nothing; a passing check is idempotent.
-/
import JaxVerif.Spec.Array
import JaxVerif.Model.Call
import JaxVerif.Generated.Rollback
import JaxVerif.Lemmas.Rollback
import JaxVerif.Lemmas.Idem
import JaxVerif.Source.Trees
import JaxVerif.Source.Storage

namespace JV

/-- an array check that answers False or raises AnnotationError leaves the memo exactly as it was,
    wherever in the walk (prefix, suffix, variadic) the mismatch was found -/
theorem C04_array_fail_restores (c : Catch) (fl : Bool) (tp : TreePath) (a : Ann) (o : ArrObj)
    (m : Memo) (h : (instancecheck c fl tp a o m).1 = .F ∨ (instancecheck c fl tp a o m).1 = .ANN) :
    (instancecheck c fl tp a o m).2 = m :=
  instancecheck_fail_restores c fl tp a o m h

/-- the same when user code raises in the middle of the walk, for every class of exception the
    handler covers -/
theorem C04_array_exc_restores (c : Catch) (fl : Bool) (tp : TreePath) (a : Ann) (o : ArrObj)
    (m : Memo) (e : Exc) (h : (instancecheck c fl tp a o m).1 = .EXC e) (hc : c.covers e = true) :
    (instancecheck c fl tp a o m).2 = m :=
  instancecheck_exc_restores c fl tp a o m e h hc

/-- with a handler that catches `BaseException` *every* non-accepting outcome restores -/
theorem C04_array_restores_all (fl : Bool) (tp : TreePath) (a : Ann) (o : ArrObj) (m : Memo)
    (h : (instancecheck .baseException fl tp a o m).1 ≠ .T) :
    (instancecheck .baseException fl tp a o m).2 = m :=
  instancecheck_base_restores fl tp a o m h

/-- the handler the current source has (extracted on every run) catches `BaseException`, restores
    all four dictionaries and re-raises; the False path restores too -/
theorem C04_generated_catch :
    Generated.arrayCatch = some .baseException ∧ Generated.pytreeCatch = some .baseException ∧
    Generated.arrayRestoresFour = true ∧ Generated.pytreeRestoresFour = true ∧
    Generated.arrayReraises = true ∧ Generated.pytreeReraises = true ∧
    Generated.arrayFalsePathRestores = true ∧ Generated.pytreeFalsePathRestores = true := by
  decide

/-- the hypothesis is not decorative: with `except Exception` a `BaseException` raised by user
    code while formatting `{p}` leaves the already-matched axis `a` bound -/
theorem C04_exception_only_leaks :
    ∃ a o m, (instancecheck .exceptionOnly false none a o m).1 = .EXC .baseException ∧
      (instancecheck .exceptionOnly false none a o m).2.single ≠ m.single :=
  ⟨{ dtypes := .any, shape := { pre := [.named "a" false false, .sym (.hole "p") false], var := none } },
   { isInst := true, dtype := "float32", shape := [3, 4] },
   { args := [("p", .raises .baseException)] }, by decide, by decide⟩

/-- a check that passed passes again from the memo it produced and changes nothing -/
theorem C04_array_idempotent (c : Catch) (tp : TreePath) (a : Ann) (o : ArrObj) (m m' : Memo)
    (h : instancecheck c false tp a o m = (.T, m')) :
    instancecheck c false tp a o m' = (.T, m') :=
  instancecheck_idempotent c tp a o m m' h

/-- the same for a whole accepted pass over several annotated values (all parameters of a call):
    checking them again in the context the pass produced accepts again and changes no binding -/
theorem C04_seq_idempotent (c : Catch) (tp : TreePath) (l : List (Ann × ArrObj)) (m m' : Memo)
    (h : checkSeq c tp l m = (.T, m')) : checkSeq c tp l m' = (.T, m') :=
  checkSeq_idempotent c tp l m m' h

/-- and for a PyTree of arrays: an accepted `PyTree[Dtype[cls, dims]]` check, repeated in the
    bindings it produced, is accepted again and changes no binding -/
theorem C04_pytree_idempotent (sk : Skel) (cls : String) (a : Ann) (ha : a.transparent = false)
    (x : Obj) (hx : x.noFault = true) (hn : x ≠ .none) (st : CState)
    (hst : st.flatten = false ∧ st.tp = none ∧ st.noCtx = false)
    (h : (checkL sk (.pytree (.arr cls a) none) x st).2 = .T) :
    let m' := (checkL sk (.pytree (.arr cls a) none) x st).1.memo
    (checkL sk (.pytree (.arr cls a) none) x { st with memo := m' }).2 = .T ∧
    (checkL sk (.pytree (.arr cls a) none) x { st with memo := m' }).1.memo = m' := by
  intro m'
  obtain ⟨hv, hm⟩ := pytree_arrays_seq sk cls a ha x hx hn st hst
  rw [hv] at h
  have hm' : m' = (checkSeq sk.arrayCatch none ((leavesWith (Obj.isArrOf cls) x).map fun o => (a, o.toArr cls)) st.memo).2 := hm h
  have hseq : checkSeq sk.arrayCatch none ((leavesWith (Obj.isArrOf cls) x).map fun o => (a, o.toArr cls)) st.memo = (.T, m') := by
    rw [hm', ← h]
  have hidem := checkSeq_idempotent _ _ _ _ _ hseq
  obtain ⟨hv2, hm2⟩ := pytree_arrays_seq sk cls a ha x hx hn { st with memo := m' } hst
  dsimp only at hv2 hm2
  rw [hidem] at hv2 hm2
  exact ⟨hv2, hm2 rfl⟩

/-- a PyTree check that answers False, raises AnnotationError, or raises an exception the handler
    covers leaves the bindings (axes *and* structure names) exactly as they were — whatever the
    leaf type, however many leaves had matched and whichever structure name had been bound -/
theorem C04_pytree_fail_restores (sk : Skel) (leafCheck : Obj → CState → CState × Verdict)
    (leafAny : Bool) (S : Option String) (x : Obj) (st : CState)
    (h : match (pytreeInstancecheck sk leafCheck leafAny S x st).2 with
         | .T => False | .F => True | .ANN => True | .EXC e => sk.pytreeCatch.covers e = true) :
    (pytreeInstancecheck sk leafCheck leafAny S x st).1.memo = st.memo :=
  pytree_fail_restores sk leafCheck leafAny S x st h

/-- lifted to a manual `isinstance` against an array or PyTree annotation at any program point:
    the context stack is untouched unless the verdict is True -/
theorem C04_check_restores (sk : Skel) (l : LType) (x : Obj) (st : TState)
    (hl : (∃ cls a, l = .arr cls a) ∨ (∃ l' s, l = .pytree l' s))
    (hb : sk.arrayCatch = .baseException ∧ sk.pytreeCatch = .baseException)
    (h : (onTop st (checkL sk l x)).2 ≠ .T) :
    (onTop st (checkL sk l x)).1.stack = st.stack :=
  check_restores sk l x st hl hb h

/-! non-vacuity -/
-- `a` matched, the last axis did not: nothing stays bound
example : instancecheck .baseException false none
    { dtypes := .any, shape := { pre := [.named "a" false false, .fixed 9 false], var := none } }
    { isInst := true, dtype := "float32", shape := [3, 4] } {} = (.F, {}) := by decide
-- an accepted check binds, and re-running it changes nothing
example : instancecheck .baseException false none
    { dtypes := .any, shape := { pre := [.named "a" false false], var := some (.namedVar "v" true false, []) } }
    { isInst := true, dtype := "float32", shape := [3, 1, 2] } {} =
    (.T, { single := [(.plain "a", 3)], variadic := [(.plain "v", (true, [1, 2]))] }) := by decide

/-- **the rollback code of PyTree checks, as written today**: `_MetaPyTree.__instancecheck__` / `_check` translated from the
    current source on this run take the snapshot BEFORE anything can bind (flattening runs the leaf test at every node),
    put all of it back when `_check` answers False and when anything whatever is raised, and otherwise are the model's
    `pytreeInstancecheck` — for every value, leaf check, structure string and state. -/
theorem C04_source_pytree_rollback (env : TEnv) (ac : Catch) (hf : FlattenKept env.leafCheck) (st : CState) :
    runInstancecheck env Generated.instancecheckCode Generated.checkCode st =
      some (if env.bare then (st, .T)
            else pytreeInstancecheck (goodSkel ac) env.leafCheck env.leafAny env.S env.x st) :=
  source_tree_instancecheck env ac hf st

/-- the rollback's reach, from the source read today: `set_shape_memo` replaces the TOP frame by the four tables it is
    given, each in its own slot, and does nothing outside a context; reading never creates a frame -/
theorem C04_source_storage (ctx : SCtx) (cell : Option (List Memo)) :
    runStorageFn Generated.storageFuns ctx Generated.setShapeMemoCode cell
      = some ((match cell with | some (_ :: r) => some (ctx.M :: r) | c => c), .none) ∧
    runStorageFn Generated.storageFuns ctx Generated.getShapeMemoCode cell
      = some (cell, .frame (match cell with | some (_ :: _) => .top | _ => .empty)) :=
  ⟨source_storage_set ctx cell, source_storage_get ctx cell⟩

end JV
