/-
The binding-stack functions of jaxtyping/_storage.py, translated from the current source on every run
(harness/translate_storage.py -> Generated/StorageCode.lean), are the stack operations the model works with, for EVERY
content of the calling thread's cell (attribute missing, empty stack, non-empty stack):
`get_shape_memo` hands out the top frame, or four throw-away tables when there is none, and changes nothing;
`set_shape_memo` replaces the top frame by the four tables it is given, in their slots, and is a no-op when there is none;
`push_shape_memo` puts ONE fresh frame with a copy of the arguments on top (creating the stack if it is missing);
`pop_shape_memo` takes exactly the top frame off. These are `onTop` / `topMemo` / `popStack` and the push of
Model/Call.lean (`source_storage_model`). The proof scripts only split on what the code can look at, so a
meaning-preserving restructuring (helpers that return the stack or None, guard clauses, `getattr` with a default) is
re-proved as it is, while a change of meaning (a frame pushed on reading, the write applied below the top, tables stored
in other slots, the stack shared through a class attribute or a captured dict) makes them fail.
Used by Properties/C04, C05, C06. Core Lean only.
-/
import JaxVerif.Generated.StorageCode
import JaxVerif.Model.Call

namespace JV
set_option linter.unusedSimpArgs false

theorem source_storage_get (ctx : SCtx) (cell : Option (List Memo)) :
    runStorageFn Generated.storageFuns ctx Generated.getShapeMemoCode cell
      = some (cell, .frame (match cell with | some (_ :: _) => .top | _ => .empty)) := by
  rcases cell with _ | (_ | ⟨x, r⟩) <;>
    simp [runStorageFn, Generated.getShapeMemoCode, Generated.storageFuns, SStmt.run, SExpr.eval, truthy, frameOf, List.lookup, resolve]

theorem source_storage_set (ctx : SCtx) (cell : Option (List Memo)) :
    runStorageFn Generated.storageFuns ctx Generated.setShapeMemoCode cell
      = some ((match cell with | some (_ :: r) => some (ctx.M :: r) | c => c), .none) := by
  rcases cell with _ | (_ | ⟨x, r⟩) <;>
    simp [runStorageFn, Generated.setShapeMemoCode, Generated.storageFuns, SStmt.run, SExpr.eval, truthy, frameOf, List.lookup, resolve]

theorem source_storage_push (ctx : SCtx) (cell : Option (List Memo)) :
    runStorageFn Generated.storageFuns ctx Generated.pushShapeMemoCode cell
      = some (some ({ args := ctx.A } :: cell.getD []), .frame .fresh) := by
  rcases cell with _ | (_ | ⟨x, r⟩) <;>
    simp [runStorageFn, Generated.pushShapeMemoCode, Generated.storageFuns, SStmt.run, SExpr.eval, truthy, frameOf, List.lookup, resolve]

theorem source_storage_pop (ctx : SCtx) (x : Memo) (r : List Memo) :
    (runStorageFn Generated.storageFuns ctx Generated.popShapeMemoCode (some (x :: r))).map (·.1) = some (some r) := by
  simp [runStorageFn, Generated.popShapeMemoCode, Generated.storageFuns, SStmt.run, SExpr.eval, truthy, frameOf, List.lookup, resolve]

/-- the same four facts in the vocabulary of Model/Call.lean: a thread state whose stack is what the cell holds -/
theorem source_storage_model (ctx : SCtx) (st : TState) (cell : Option (List Memo)) (h : st.stack = cell.getD []) :
    -- reading: the frame handed out is `topMemo` (the throw-away one is empty), the stack is untouched
    (∃ src, runStorageFn Generated.storageFuns ctx Generated.getShapeMemoCode cell = some (cell, .frame src) ∧
            resolve ctx (topMemo st) src = topMemo st) ∧
    -- writing: `onTop`'s write-back — the head is replaced, an empty stack stays empty
    ((runStorageFn Generated.storageFuns ctx Generated.setShapeMemoCode cell).map (fun r => r.1.getD [])
        = some (match st.stack with | [] => [] | _ :: r => ctx.M :: r)) ∧
    -- pushing: one frame holding the arguments, on top
    ((runStorageFn Generated.storageFuns ctx Generated.pushShapeMemoCode cell).map (fun r => r.1.getD [])
        = some ({ args := ctx.A } :: st.stack)) ∧
    -- popping a non-empty stack is `popStack`
    (st.stack ≠ [] → (runStorageFn Generated.storageFuns ctx Generated.popShapeMemoCode cell).map (fun r => r.1.getD [])
        = some (popStack st).stack) := by
  refine ⟨?_, ?_, ?_, ?_⟩
  · rw [source_storage_get]
    rcases cell with _ | (_ | ⟨x, r⟩) <;> simp [topMemo, resolve, h]
  · rw [source_storage_set]
    rcases cell with _ | (_ | ⟨x, r⟩) <;> simp [h]
  · rw [source_storage_push]; simp [h]
  · intro hne
    rcases cell with _ | (_ | ⟨x, r⟩)
    · exact (hne (by simpa using h)).elim
    · exact (hne (by simpa using h)).elim
    · have := source_storage_pop ctx x r
      cases hr : runStorageFn Generated.storageFuns ctx Generated.popShapeMemoCode (some (x :: r)) with
      | none => rw [hr] at this; simp at this
      | some p => rw [hr] at this; simp at this; simp [this, popStack, h]

/-! ### histories: the translated functions refine the abstract stack machine -/

/-- the operations other modules perform on the binding stack -/
inductive StackOp
  | get
  | set (m : Memo)
  | push (a : Args)
  | pop

/-- the abstract stack machine the model's theorems are about -/
def StackOp.spec : StackOp → List Memo → Option (List Memo)
  | .get, s => some s
  | .set _, [] => some []
  | .set m, _ :: r => some (m :: r)
  | .push a, s => some ({ args := a } :: s)
  | .pop, [] => none                       -- `pop_shape_memo` without a frame is an error of the caller
  | .pop, _ :: r => some r

/-- the translated function run on the thread's cell -/
def StackOp.impl : StackOp → Option (List Memo) → Option (Option (List Memo))
  | .get, c => (runStorageFn Generated.storageFuns ⟨{}, []⟩ Generated.getShapeMemoCode c).map (·.1)
  | .set m, c => (runStorageFn Generated.storageFuns ⟨m, []⟩ Generated.setShapeMemoCode c).map (·.1)
  | .push a, c => (runStorageFn Generated.storageFuns ⟨{}, a⟩ Generated.pushShapeMemoCode c).map (·.1)
  | .pop, c => (runStorageFn Generated.storageFuns ⟨{}, []⟩ Generated.popShapeMemoCode c).map (·.1)

def runStackSpec : List StackOp → List Memo → Option (List Memo)
  | [], s => some s
  | op :: ops, s => (op.spec s).bind (runStackSpec ops)

def runStackImpl : List StackOp → Option (List Memo) → Option (Option (List Memo))
  | [], c => some c
  | op :: ops, c => (op.impl c).bind (runStackImpl ops)

theorem stackOp_step (op : StackOp) (c : Option (List Memo)) (hne : op.spec (c.getD []) ≠ none) :
    (op.impl c).map (·.getD []) = op.spec (c.getD []) := by
  cases op with
  | get => simp [StackOp.impl, StackOp.spec, source_storage_get]
  | set m =>
    simp only [StackOp.impl, source_storage_set]
    rcases c with _ | (_ | ⟨x, r⟩) <;> simp [StackOp.spec]
  | push a => simp [StackOp.impl, StackOp.spec, source_storage_push]
  | pop =>
    rcases c with _ | (_ | ⟨x, r⟩)
    · simp [StackOp.spec] at hne
    · simp [StackOp.spec] at hne
    · have := source_storage_pop ⟨{}, []⟩ x r
      simp only [StackOp.impl, StackOp.spec, Option.getD_some]
      rw [this]; rfl

/-- REFINEMENT: every history of reads, writes, pushes and pops that the abstract stack machine accepts (no pop
    without a frame) runs on the translated `_storage.py` functions without an error and leaves the thread's cell holding
    exactly the abstract stack — from any starting cell, including a thread that has never used the library -/
theorem source_storage_history (ops : List StackOp) (c : Option (List Memo)) (s' : List Memo)
    (h : runStackSpec ops (c.getD []) = some s') :
    (runStackImpl ops c).map (·.getD []) = some s' := by
  induction ops generalizing c with
  | nil => simpa [runStackSpec, runStackImpl] using h
  | cons op ops ih =>
    simp only [runStackSpec] at h
    cases hs : op.spec (c.getD []) with
    | none => simp [hs] at h
    | some s1 =>
      have hstep := stackOp_step op c (by simp [hs])
      rw [hs] at hstep
      cases hi : op.impl c with
      | none => simp [hi] at hstep
      | some c1 =>
        simp only [hi, Option.map_some, Option.some.injEq] at hstep
        simp only [runStackImpl, hi, Option.bind_some]
        apply ih
        rw [hstep]
        simpa [hs] using h

/-! ### the `?`-leaf label and the flatten-mode flag -/

/-- what the label cell can hold: nothing yet, `None`, or a label -/
def TreepathCellOk (cell : Option KVal) : Prop := cell = none ∨ cell = some .none ∨ ∃ i S, cell = some (.label i S)

/-- `clear_` / `set_` / `get_treepath_memo`, translated from the source read today, for every content of the cell:
    clearing stores `None`; setting raises AnnotationError (and changes nothing) when a label is set, and otherwise
    stores the label of THIS index and structure name; reading returns the label, or raises AnnotationError without one -/
theorem source_cell_treepath (ctx : KCtx) (cell : Option KVal) (h : TreepathCellOk cell) :
    runCellFn Generated.treepathFuns ctx Generated.clearTreepathCode cell = some (some .none, .inl .none) ∧
    runCellFn Generated.treepathFuns ctx Generated.setTreepathCode cell
      = (match cell with
         | some (.label _ _) => some (cell, .inr ())
         | _ => some (some (.label ctx.index ctx.sname), .inl .none)) ∧
    runCellFn Generated.treepathFuns ctx Generated.getTreepathCode cell
      = (match cell with
         | some (.label i S) => some (cell, .inl (.label i S))
         | _ => some (cell, .inr ())) := by
  obtain ⟨idx, S⟩ := ctx
  rcases h with rfl | rfl | ⟨i, S', rfl⟩ <;> cases idx <;>
    simp [runCellFn, Generated.treepathFuns, Generated.clearTreepathCode, Generated.setTreepathCode, Generated.getTreepathCode,
      KStmt.run, KExpr.eval, ktruthy, List.lookup]

/-- in the model's vocabulary (`tp : TreePath`): after clearing there is no label; setting the label of leaf `i` of
    structure `S` where there was none gives exactly `(i, S)` -/
theorem source_cell_treepath_model (i : Nat) (S : String) (cell : Option KVal) (h : TreepathCellOk cell) :
    ((runCellFn Generated.treepathFuns ⟨some i, S⟩ Generated.clearTreepathCode cell).map fun r => tpOfCell r.1) = some none ∧
    ((∀ j S', cell ≠ some (.label j S')) →
      ((runCellFn Generated.treepathFuns ⟨some i, S⟩ Generated.setTreepathCode cell).map fun r => tpOfCell r.1) = some (some (i, S))) := by
  have hh := source_cell_treepath ⟨some i, S⟩ cell h
  refine ⟨by rw [hh.1]; rfl, fun hn => ?_⟩
  rw [hh.2.1]
  rcases h with rfl | rfl | ⟨j, S', rfl⟩
  · rfl
  · rfl
  · exact (hn j S' rfl).elim

def FlattenCellOk (cell : Option KVal) : Prop := cell = none ∨ ∃ b, cell = some (.bool b)

/-- `clear_` / `set_` / `get_treeflatten_memo`: stores False / True; reads the flag, False in a thread that never set it -/
theorem source_cell_flatten (ctx : KCtx) (cell : Option KVal) (h : FlattenCellOk cell) :
    runCellFn Generated.treeflattenFuns ctx Generated.clearTreeflattenCode cell = some (some (.bool false), .inl .none) ∧
    runCellFn Generated.treeflattenFuns ctx Generated.setTreeflattenCode cell = some (some (.bool true), .inl .none) ∧
    runCellFn Generated.treeflattenFuns ctx Generated.getTreeflattenCode cell = some (cell, .inl (.bool (flattenOfCell cell))) := by
  rcases h with rfl | ⟨b, rfl⟩ <;>
    simp [runCellFn, Generated.treeflattenFuns, Generated.clearTreeflattenCode, Generated.setTreeflattenCode, Generated.getTreeflattenCode,
      KStmt.run, KExpr.eval, ktruthy, List.lookup, flattenOfCell]

/-! ### histories of the label: the translated functions refine the abstract label machine -/

/-- what `_check` does to the `?`-leaf label -/
inductive LabelOp
  | clear
  | set (i : Nat) (S : String)
  | get

/-- the abstract label machine of the model (`tp : TreePath`): the new label and whether the operation raised AnnotationError -/
def LabelOp.spec : LabelOp → TreePath → TreePath × Bool
  | .clear, _ => (none, false)
  | .set i S, none => (some (i, S), false)
  | .set _ _, some p => (some p, true)          -- a label on top of a label: ambiguous, AnnotationError
  | .get, none => (none, true)                  -- `?` outside a structured PyTree: AnnotationError
  | .get, some p => (some p, false)

/-- the translated function run on the thread's cell: the cell afterwards and whether it raised AnnotationError -/
def LabelOp.impl : LabelOp → Option KVal → Option (Option KVal × Bool)
  | .clear, c => (runCellFn Generated.treepathFuns ⟨none, ""⟩ Generated.clearTreepathCode c).map fun r => (r.1, r.2.isRight)
  | .set i S, c => (runCellFn Generated.treepathFuns ⟨some i, S⟩ Generated.setTreepathCode c).map fun r => (r.1, r.2.isRight)
  | .get, c => (runCellFn Generated.treepathFuns ⟨none, ""⟩ Generated.getTreepathCode c).map fun r => (r.1, r.2.isRight)

/-- cells the leaf loop can produce: nothing yet, `None`, or the label of a leaf -/
def LeafCellOk (c : Option KVal) : Prop := c = none ∨ c = some .none ∨ ∃ i S, c = some (.label (some i) S)

theorem LeafCellOk.treepath {c : Option KVal} (h : LeafCellOk c) : TreepathCellOk c := by
  rcases h with h | h | ⟨i, S, h⟩
  · exact Or.inl h
  · exact Or.inr (Or.inl h)
  · exact Or.inr (Or.inr ⟨some i, S, h⟩)

theorem labelOp_step (op : LabelOp) (c : Option KVal) (h : LeafCellOk c) :
    ∃ c', op.impl c = some (c', (op.spec (tpOfCell c)).2) ∧ LeafCellOk c' ∧ tpOfCell c' = (op.spec (tpOfCell c)).1 := by
  cases op with
  | clear =>
    refine ⟨some .none, ?_, Or.inr (Or.inl rfl), rfl⟩
    simp [LabelOp.impl, (source_cell_treepath ⟨none, ""⟩ c h.treepath).1, LabelOp.spec]
  | set i S =>
    have hs := (source_cell_treepath ⟨some i, S⟩ c h.treepath).2.1
    rcases h with rfl | rfl | ⟨j, S', rfl⟩
    · exact ⟨some (.label (some i) S), by simp [LabelOp.impl, hs, LabelOp.spec, tpOfCell], Or.inr (Or.inr ⟨i, S, rfl⟩), rfl⟩
    · exact ⟨some (.label (some i) S), by simp [LabelOp.impl, hs, LabelOp.spec, tpOfCell], Or.inr (Or.inr ⟨i, S, rfl⟩), rfl⟩
    · exact ⟨some (.label (some j) S'), by simp [LabelOp.impl, hs, LabelOp.spec, tpOfCell], Or.inr (Or.inr ⟨j, S', rfl⟩), rfl⟩
  | get =>
    have hg := (source_cell_treepath ⟨none, ""⟩ c h.treepath).2.2
    rcases h with rfl | rfl | ⟨j, S', rfl⟩
    · exact ⟨none, by simp [LabelOp.impl, hg, LabelOp.spec, tpOfCell], Or.inl rfl, rfl⟩
    · exact ⟨some .none, by simp [LabelOp.impl, hg, LabelOp.spec, tpOfCell], Or.inr (Or.inl rfl), rfl⟩
    · exact ⟨some (.label (some j) S'), by simp [LabelOp.impl, hg, LabelOp.spec, tpOfCell], Or.inr (Or.inr ⟨j, S', rfl⟩), rfl⟩

def runLabelSpec : List LabelOp → TreePath → TreePath × List Bool
  | [], tp => (tp, [])
  | op :: ops, tp => let r := op.spec tp; let q := runLabelSpec ops r.1; (q.1, r.2 :: q.2)

def runLabelImpl : List LabelOp → Option KVal → Option (Option KVal × List Bool)
  | [], c => some (c, [])
  | op :: ops, c => (op.impl c).bind fun r => (runLabelImpl ops r.1).map fun q => (q.1, r.2 :: q.2)

/-- REFINEMENT: every history of clear / set / get on the label — including the ones that raise AnnotationError, after
    which the history goes on — runs on the translated functions with exactly the abstract machine's sequence of errors
    and ends in a cell that stands for the abstract label, from any cell the leaf loop can produce -/
theorem source_cell_treepath_history (ops : List LabelOp) (c : Option KVal) (h : LeafCellOk c) :
    ∃ c', runLabelImpl ops c = some (c', (runLabelSpec ops (tpOfCell c)).2) ∧ tpOfCell c' = (runLabelSpec ops (tpOfCell c)).1 := by
  induction ops generalizing c with
  | nil => exact ⟨c, rfl, rfl⟩
  | cons op ops ih =>
    obtain ⟨c1, h1, hok, htp⟩ := labelOp_step op c h
    obtain ⟨c2, h2, htp2⟩ := ih c1 hok
    refine ⟨c2, ?_, ?_⟩
    · simp [runLabelImpl, h1, h2, runLabelSpec, htp]
    · simp [runLabelSpec, htp2, htp]

end JV
