/-
Model of the structure-string validation in `_MetaPyTree.__getitem__` (jaxtyping/_pytree_type.py).
-/
import JaxVerif.Model.Parse

namespace JV

def ellipsisTok : List Char := ['.', '.', '.']

/-- the loop over `enumerate(pieces)`: `...` is let through only in first or last position -/
def piecesOk : List (List Char) → Nat → Nat → Bool
  | [], _, _ => true
  | p :: ps, i, n =>
    (((i == 0 || i == n - 1) && p == ellipsisTok) || isIdentifier p) && piecesOk ps (i + 1) n

/-- `PyTree[leaf, struct]` is built (true) or raises ValueError (false), for a string `struct` -/
def validStruct (s : List Char) : Bool :=
  let pieces := splitWs s
  !pieces.isEmpty && piecesOk pieces 0 pieces.length

end JV
