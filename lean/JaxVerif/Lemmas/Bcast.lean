/-
Order theory of numpy broadcasting: `bc` on reversed shapes, transported to `bcast` /
`BroadcastsTo` on shapes in normal order.  Core Lean only.
-/
import JaxVerif.Spec.Array

namespace JV

/-! ### per-axis rule -/

theorem b1_comm (a b : Nat) : b1 a b = b1 b a := by
  grind [b1]

theorem b1_self (a : Nat) : b1 a a = some a := by simp [b1]

theorem b1_le_iff (a v : Nat) : b1 a v = some v ↔ (a = v ∨ a = 1) := by
  grind [b1]

theorem b1_one_left (y z : Nat) : b1 1 y = some z ↔ y = z := by
  grind [b1]

theorem b1_one_right (x z : Nat) : b1 x 1 = some z ↔ x = z := by
  grind [b1]

/-! ### `bc` on reversed shapes -/

theorem bc_nil_left (ys : List Nat) : bc [] ys = some ys := by simp [bc]

theorem bc_nil_right (xs : List Nat) : bc xs [] = some xs := by cases xs <;> simp [bc]

theorem bc_cons_cons (x : Nat) (xs : List Nat) (y : Nat) (ys : List Nat) :
    bc (x :: xs) (y :: ys) = (b1 x y).bind fun z => (bc xs ys).map (z :: ·) := by
  simp only [bc]
  cases b1 x y <;> cases bc xs ys <;> rfl

theorem bc_cons_cons_eq_some (x : Nat) (xs : List Nat) (y : Nat) (ys : List Nat) (r : List Nat) :
    bc (x :: xs) (y :: ys) = some r ↔ ∃ z zs, b1 x y = some z ∧ bc xs ys = some zs ∧ r = z :: zs := by
  rw [bc_cons_cons]
  cases h1 : b1 x y with
  | none => simp
  | some z =>
    cases h2 : bc xs ys with
    | none => simp
    | some zs =>
      simp only [Option.bind_some, Option.map_some, Option.some.injEq]
      constructor
      · intro h; exact ⟨z, zs, rfl, rfl, h.symm⟩
      · rintro ⟨z', zs', hz, hzs, hr⟩; subst hz; subst hzs; exact hr.symm

theorem bc_comm : ∀ xs ys : List Nat, bc xs ys = bc ys xs
  | [], ys => by rw [bc_nil_left, bc_nil_right]
  | x :: xs, [] => by rw [bc_nil_left, bc_nil_right]
  | x :: xs, y :: ys => by
    rw [bc_cons_cons, bc_cons_cons, b1_comm x y, bc_comm xs ys]

theorem bc_self : ∀ xs : List Nat, bc xs xs = some xs
  | [] => by simp [bc]
  | x :: xs => by rw [bc_cons_cons, b1_self, bc_self xs]; rfl

/-- `s ≤ v` on reversed shapes: `s` can be broadcast *to* `v` -/
def le (s v : List Nat) : Prop := bc s v = some v

theorem le_refl (xs : List Nat) : le xs xs := bc_self xs

theorem le_nil_left (vs : List Nat) : le [] vs := by simp [le, bc]

theorem le_nil_right_iff (xs : List Nat) : le xs [] ↔ xs = [] := by
  cases xs <;> simp [le, bc]

theorem le_cons_iff (x : Nat) (xs : List Nat) (v : Nat) (vs : List Nat) :
    le (x :: xs) (v :: vs) ↔ (x = v ∨ x = 1) ∧ le xs vs := by
  unfold le
  rw [bc_cons_cons_eq_some]
  constructor
  · rintro ⟨z, zs, hz, hzs, hr⟩
    injection hr with h1 h2
    subst h1; subst h2
    exact ⟨(b1_le_iff x v).mp hz, hzs⟩
  · rintro ⟨h1, h2⟩
    exact ⟨v, vs, (b1_le_iff x v).mpr h1, h2, rfl⟩

theorem le_trans : ∀ a b c : List Nat, le a b → le b c → le a c
  | [], _, c, _, _ => le_nil_left c
  | x :: xs, [], c, h, _ => by simp [le_nil_right_iff] at h
  | x :: xs, y :: ys, [], _, h => by simp [le_nil_right_iff] at h
  | x :: xs, y :: ys, z :: zs, h1, h2 => by
    rw [le_cons_iff] at h1 h2 ⊢
    refine ⟨?_, le_trans xs ys zs h1.2 h2.2⟩
    rcases h1.1 with rfl | rfl
    · exact h2.1
    · right; rfl

/-- least upper bound: two shapes that both broadcast to `v` broadcast with each other,
    and the result broadcasts to `v` -/
theorem lub : ∀ a b v : List Nat, le a v → le b v →
    ∃ j, bc a b = some j ∧ le j v ∧ le a j ∧ le b j
  | [], b, v, _, hb => ⟨b, by simp [bc], hb, le_nil_left b, le_refl b⟩
  | x :: xs, [], v, ha, _ => ⟨x :: xs, by simp [bc], ha, le_refl _, le_nil_left _⟩
  | x :: xs, y :: ys, [], ha, _ => by simp [le_nil_right_iff] at ha
  | x :: xs, y :: ys, z :: zs, ha, hb => by
    rw [le_cons_iff] at ha hb
    obtain ⟨j, hj, hjv, haj, hbj⟩ := lub xs ys zs ha.2 hb.2
    have : ∃ w, b1 x y = some w ∧ (w = z ∨ w = 1) ∧ (x = w ∨ x = 1) ∧ (y = w ∨ y = 1) := by
      have h1 := ha.1; have h2 := hb.1
      by_cases hxy : x = y
      · exact ⟨x, by grind [b1], by grind, by grind, by grind⟩
      · by_cases hx1 : x = 1
        · exact ⟨y, by grind [b1], by grind, by grind, by grind⟩
        · exact ⟨x, by grind [b1], by grind, by grind, by grind⟩
    obtain ⟨w, hw, hwz, hxw, hyw⟩ := this
    refine ⟨w :: j, (bc_cons_cons_eq_some ..).mpr ⟨w, j, hw, hj, rfl⟩, ?_, ?_, ?_⟩ <;>
      rw [le_cons_iff]
    · exact ⟨hwz, hjv⟩
    · exact ⟨hxw, haj⟩
    · exact ⟨hyw, hbj⟩

/-- an upper bound of the join: if `bc a b = some j` then `a ≤ j` and `b ≤ j` -/
theorem bc_upper : ∀ a b j : List Nat, bc a b = some j → le a j ∧ le b j
  | [], b, j, h => by simp [bc] at h; subst h; exact ⟨le_nil_left _, le_refl _⟩
  | x :: xs, [], j, h => by simp [bc] at h; subst h; exact ⟨le_refl _, le_nil_left _⟩
  | x :: xs, y :: ys, j, h => by
    obtain ⟨w, js, h1, h2, rfl⟩ := (bc_cons_cons_eq_some ..).mp h
    obtain ⟨ha, hb⟩ := bc_upper xs ys js h2
    have hx : (x = w ∨ x = 1) ∧ (y = w ∨ y = 1) := by
      grind [b1]
    exact ⟨(le_cons_iff ..).mpr ⟨hx.1, ha⟩, (le_cons_iff ..).mpr ⟨hx.2, hb⟩⟩

/-! ### pointwise characterisation of `bc` -/

theorem list_ext_getD1 : ∀ (ys zs : List Nat), zs.length = ys.length →
    (∀ i, i < zs.length → ys[i]?.getD 1 = zs[i]?.getD 1) → ys = zs
  | [], [], _, _ => rfl
  | [], _ :: _, h, _ => by simp at h
  | _ :: _, [], h, _ => by simp at h
  | y :: ys, z :: zs, h, hp => by
    have h0 := hp 0 (by simp)
    simp at h0
    have ht := list_ext_getD1 ys zs (by simpa using h) (fun i hi => by
      have := hp (i + 1) (by simp; omega)
      simpa using this)
    rw [h0, ht]

theorem bc_spec : ∀ xs ys zs : List Nat,
    bc xs ys = some zs ↔
      (zs.length = max xs.length ys.length ∧
        ∀ i, i < zs.length → b1 (xs[i]?.getD 1) (ys[i]?.getD 1) = some (zs[i]?.getD 1))
  | [], ys, zs => by
    rw [bc_nil_left]
    constructor
    · intro h; injection h with h; subst h
      refine ⟨by simp, fun i _ => ?_⟩
      simp [b1_one_left]
    · rintro ⟨hl, hp⟩
      congr 1
      refine list_ext_getD1 ys zs (by simpa using hl) (fun i hi => ?_)
      have := hp i hi
      simpa [b1_one_left] using this
  | x :: xs, [], zs => by
    rw [bc_nil_right]
    constructor
    · intro h; injection h with h; subst h
      refine ⟨by simp, fun i _ => ?_⟩
      simp [b1_one_right]
    · rintro ⟨hl, hp⟩
      congr 1
      refine list_ext_getD1 (x :: xs) zs (by simpa using hl) (fun i hi => ?_)
      have := hp i hi
      simpa [b1_one_right] using this
  | x :: xs, y :: ys, [] => by
    constructor
    · intro h
      obtain ⟨_, _, _, _, h⟩ := (bc_cons_cons_eq_some ..).mp h
      cases h
    · rintro ⟨hl, _⟩
      simp at hl
  | x :: xs, y :: ys, z :: zs => by
    rw [bc_cons_cons_eq_some]
    have ih := bc_spec xs ys zs
    constructor
    · rintro ⟨w, ws, hw, hws, hr⟩
      injection hr with h1 h2
      subst h1; subst h2
      obtain ⟨hl, hp⟩ := ih.mp hws
      refine ⟨by simp [hl], fun i hi => ?_⟩
      cases i with
      | zero => simpa using hw
      | succ i =>
        have := hp i (by simpa using hi)
        simpa using this
    · rintro ⟨hl, hp⟩
      refine ⟨z, zs, ?_, ih.mpr ⟨?_, fun i hi => ?_⟩, rfl⟩
      · simpa using hp 0 (by simp)
      · simp at hl; omega
      · have := hp (i + 1) (Nat.succ_lt_succ hi)
        simpa using this

/-! ### transport to shapes in normal order -/

theorem bcast_eq_some_iff (a b c : List Nat) :
    bcast a b = some c ↔ bc a.reverse b.reverse = some c.reverse := by
  unfold bcast
  cases h : bc a.reverse b.reverse with
  | none => simp
  | some r =>
    simp only [Option.map_some, Option.some.injEq]
    constructor
    · intro h'; subst h'; simp
    · intro h'; rw [h']; simp

theorem bt_iff (s v : List Nat) : BroadcastsTo s v ↔ le s.reverse v.reverse := by
  unfold BroadcastsTo le
  exact bcast_eq_some_iff s v v

theorem bcast_comm (a b : List Nat) : bcast a b = bcast b a := by
  unfold bcast; rw [bc_comm]

theorem bt_refl (s : List Nat) : BroadcastsTo s s := (bt_iff s s).mpr (le_refl _)

theorem bt_trans (a b c : List Nat) (h1 : BroadcastsTo a b) (h2 : BroadcastsTo b c) :
    BroadcastsTo a c :=
  (bt_iff a c).mpr (le_trans _ _ _ ((bt_iff a b).mp h1) ((bt_iff b c).mp h2))

theorem bt_lub (a b v : List Nat) (ha : BroadcastsTo a v) (hb : BroadcastsTo b v) :
    ∃ j, bcast a b = some j ∧ BroadcastsTo j v ∧ BroadcastsTo a j ∧ BroadcastsTo b j := by
  obtain ⟨j, hj, hjv, haj, hbj⟩ := lub _ _ _ ((bt_iff a v).mp ha) ((bt_iff b v).mp hb)
  refine ⟨j.reverse, ?_, ?_, ?_, ?_⟩
  · rw [bcast_eq_some_iff]; simpa using hj
  · rw [bt_iff]; simpa using hjv
  · rw [bt_iff]; simpa using haj
  · rw [bt_iff]; simpa using hbj

theorem bcast_upper (a b j : List Nat) (h : bcast a b = some j) :
    BroadcastsTo a j ∧ BroadcastsTo b j := by
  obtain ⟨h1, h2⟩ := bc_upper _ _ _ ((bcast_eq_some_iff a b j).mp h)
  exact ⟨(bt_iff a j).mpr h1, (bt_iff b j).mpr h2⟩

theorem bcast_spec (a b c : List Nat) :
    bcast a b = some c ↔
      (c.length = max a.length b.length ∧
        ∀ i, i < c.length →
          b1 ((a.reverse)[i]?.getD 1) ((b.reverse)[i]?.getD 1) = some ((c.reverse)[i]?.getD 1)) := by
  rw [bcast_eq_some_iff, bc_spec]
  simp only [List.length_reverse]

end JV
