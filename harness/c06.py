"""C06 — threads never see each other's bindings or transient check state.

Real threads under a deterministic cooperative scheduler (harness/sched.py, sys.settrace; no source
hook): a thread can be preempted at every line of jaxtyping/_storage.py (quick) or of every
jaxtyping source file (thorough). Per-thread transcripts (verdicts, print_bindings() output, call
outcomes) must equal the transcript of the same workload run alone, which in turn must equal the
Lean model's sequential prediction."""
from __future__ import annotations

import glob
import json
import os

import extract
import gen_prog
import impl_prog
import progcheck
from common import REPO, InfraError, Rng
from gen_prog import INT, arr_type, arr_val, ival
from sched import Scheduler

LEVEL = "proof"
THEOREMS = ["C06_source_cells", "C06_source_storage", "C06_kinds", "C06_noninterference", "C06_generated", "C06_schedule_independent", "C06_sensitive", "C06_no_other_shared_state"]
RULE = (
    "2-3 real threads, each running a workload of context blocks, new- and old-style decorated calls, array "
    "checks, PyTree checks with '?' axes and structure names, custom-node flattening, failing checks that "
    "roll back, and probe checks whose verdict flips if another thread's flatten mode / '?' label / "
    "bindings leak (wrong dtype must be rejected, '?' outside a PyTree must raise, same name other size "
    "must bind afresh); schedules: for every ordered pair (A, B) and EVERY yield point p of A, B (then the "
    "third thread) runs to completion inside A's p-th point (all one-preemption schedules with the "
    "preempting thread run to completion), plus seeded two-window schedules (A paused at p, B paused at q, "
    "A finishes, B finishes) and seeded multi-segment schedules over three threads; yield points: every "
    "line of jaxtyping/_storage.py and of _check_dims / _check_shape (quick), every line of every jaxtyping source "
    "file (thorough); checks outside every context included (they must start from empty bindings); a sample of the "
    "schedules again with every worker running inside a copy of one contextvars context, and with workers started through "
    "_thread.start_new_thread; "
    "non-trivial = the preemption lands while the preempted thread holds a context, a '?' label or "
    "flatten mode; distinct by (workload set, schedule)"
)
TRUSTED = ["harness/translate_storage.py (recognisers of the statements of the label / flag functions of _storage.py) and the interpreter Model/CellDsl.lean", 
    "harness/translate_storage.py (recognisers of the statements of get/set/push/pop_shape_memo and their helpers) and the interpreter Model/StorageDsl.lean (one list object per thread cell; list end = head of the model's list)",
    "Lean 4 kernel",
    "CPython's threading.local, the GIL and settrace line granularity (a preemption between two bytecodes of one line is not exercised; the theorem covers it for the model)",
    "harness/extract.py: classification of the module-level cells of _storage.py",
]

P = {"op": "print"}
def scope_free(s):
    """checks outside every context: each starts from empty bindings, so `n n` accepts (s, s) and rejects
    (s, s + 1) whatever other threads do in the meantime"""
    return [{"op": "check", "l": arr_type("n n"), "x": arr_val([s, s])}, {"op": "check", "l": arr_type("n n"), "x": arr_val([s, s + 1])},
            {"op": "ctx", "body": [{"op": "check", "l": arr_type("n n+1 2*n"), "x": arr_val([s, s + 1, 2 * s])},
                                   {"op": "check", "l": arr_type("n+2"), "x": arr_val([s + 1])}, P], "exit": "ret"},
            {"op": "check", "l": arr_type("n *v n"), "x": arr_val([s, 9, s])},
            {"op": "check", "l": {"t": "pytree", "l": arr_type("m"), "s": None}, "x": {"t": "tuple", "xs": [arr_val([s]), arr_val([s + 1])]}},
            {"op": "check", "l": {"t": "pytree", "l": arr_type("m"), "s": None}, "x": {"t": "tuple", "xs": [arr_val([s]), arr_val([s])]}}]


WRONG_DTYPE = {"op": "check", "l": arr_type("k", cat="Float"), "x": arr_val([2], dtype="int32")}          # F unless flatten mode leaks
QMARK_OUTSIDE = {"op": "check", "l": arr_type("?q"), "x": arr_val([2])}                                 # ANN unless a '?' label leaks


def tree(*xs):
    return {"t": "tuple", "xs": list(xs)}


def workload(i):
    """three families, parameterised by the thread number so that leaked sizes are visible"""
    s = 2 + i          # this thread's size for axis `a`
    q = arr_type("?n")
    custom = {"t": "custom", "tag": "Node", "fault": None, "xs": [arr_val([s]), {"t": "list", "xs": [arr_val([s + 1])]}]}
    if i % 3 == 0:
        return scope_free(s) + [
            WRONG_DTYPE, QMARK_OUTSIDE,
            {"op": "ctx", "exit": "ret", "body": [
                {"op": "check", "l": arr_type("a b"), "x": arr_val([s, 7])}, P,
                {"op": "check", "l": arr_type("a"), "x": arr_val([s + 5])},            # F: rolled back
                {"op": "check", "l": {"t": "pytree", "l": q, "s": "T"}, "x": tree(arr_val([s]), arr_val([s + 1]))}, P,
                QMARK_OUTSIDE, WRONG_DTYPE,
                {"op": "check", "l": {"t": "pytree", "l": q, "s": "T"}, "x": tree(arr_val([s]), arr_val([s + 2]))},  # F: leaf 1 differs
                {"op": "check", "l": {"t": "pytree", "l": arr_type("a"), "s": None}, "x": custom}, P,                # F: second leaf s+1
                {"op": "ctx", "exit": "exc", "body": [{"op": "check", "l": arr_type("a"), "x": arr_val([s + 9])}, P]},
                P,
            ]},
            P, WRONG_DTYPE,
        ]
    if i % 3 == 1:
        params = [{"name": "x", "ty": arr_type("a *v"), "val": arr_val([s, 4, 4])}, {"name": "y", "ty": arr_type("a"), "val": arr_val([s])}]
        bad = [{"name": "x", "ty": arr_type("a"), "val": arr_val([s])}, {"name": "y", "ty": arr_type("a"), "val": arr_val([s + 1])}]
        return [
            {"op": "call", "kind": "new", "params": params, "ret": {"ty": arr_type("a"), "val": arr_val([s])}, "bindok": True, "notc": False, "exit": "ret",
             "body": [P, WRONG_DTYPE, {"op": "check", "l": arr_type("a"), "x": arr_val([s + 3])}, QMARK_OUTSIDE, P,
                      {"op": "call", "kind": "old", "params": bad, "ret": None, "bindok": True, "notc": False, "exit": "ret", "body": [P]}, P]},
            {"op": "call", "kind": "new", "params": bad, "ret": None, "bindok": True, "notc": False, "exit": "ret", "body": [P]},
            {"op": "call", "kind": "old", "params": params, "ret": None, "bindok": True, "notc": False, "exit": "base", "body": [P, QMARK_OUTSIDE]},
            P, QMARK_OUTSIDE, WRONG_DTYPE,
        ] + scope_free(s)
    lt = {"t": "union", "ts": [INT, q]}
    return [
        {"op": "ctx", "exit": "ret", "body": [
            {"op": "check", "l": {"t": "pytree", "l": lt, "s": "S"}, "x": {"t": "list", "xs": [ival(1), arr_val([s]), {"t": "none"}, arr_val([s + 1])]}}, P,
            {"op": "check", "l": {"t": "pytree", "l": {"t": "pytree", "l": q, "s": None}, "s": "S"}, "x": {"t": "list", "xs": [ival(1), arr_val([s]), {"t": "none"}, arr_val([s + 1])]}},
            WRONG_DTYPE,
            {"op": "check", "l": {"t": "pytree", "l": arr_type("a"), "s": "S ..."}, "x": {"t": "list", "xs": [tree(arr_val([s])), tree(arr_val([s])), {"t": "none"}, arr_val([s])]}}, P,
            {"op": "check", "l": {"t": "pytree", "l": {"t": "tuple", "ts": [INT, INT]}, "s": None}, "x": tree(tree(ival(1), ival(2)), {"t": "list", "xs": [tree(ival(3), ival(4))]})},
            QMARK_OUTSIDE,
            {"op": "check", "l": arr_type("*w a"), "x": arr_val([9, 9, s])}, P,
        ]},
        WRONG_DTYPE, QMARK_OUTSIDE, P,
    ] + scope_free(s)


def runner(prog):
    def run():
        obs, resid = impl_prog.run_program(prog, "typeguard", None)
        return {"obs": obs, "resid": resid}
    return run


def files_for(tier):
    root = os.path.join(REPO, "jaxtyping")
    if tier == "thorough":
        return [f for f in glob.glob(os.path.join(root, "*.py")) if not os.path.basename(f).startswith("_typeguard")]
    return [os.path.join(root, "_storage.py")]


def functions_for(tier):
    """quick tier: besides every line of _storage.py, the lines of the two functions that read and write the
    binding dictionaries between two storage accesses"""
    if tier == "thorough":
        return {}
    # ... and of the module-level helpers they call (transitively): a scratch value shared by all threads inside such a
    # helper is exposed to preemption there
    import ast

    path = os.path.join(REPO, "jaxtyping", "_array_types.py")
    with open(path) as fh:
        tree = ast.parse(fh.read())
    defs = {n.name: n for n in ast.walk(tree) if isinstance(n, ast.FunctionDef)}
    names, todo = set(), ["_check_dims", "_check_shape"]
    while todo:
        f = todo.pop()
        if f in names or f not in defs:
            continue
        names.add(f)
        for c in ast.walk(defs[f]):
            if isinstance(c, ast.Call) and isinstance(c.func, ast.Name) and c.func.id in defs and c.func.id not in ("_make_array_cached", "_make_array"):
                todo.append(c.func.id)
    return {path: names}


_MODE = {"functions": {}, "contexts": False, "raw": False, "opcodes": False}


def run_schedule(files, progs, schedule):
    ctxs = None
    if _MODE["contexts"]:
        # every worker runs in a copy of a context in which jaxtyping has already been used once
        import contextvars

        impl_prog.run_program([{"op": "ctx", "body": [{"op": "check", "l": arr_type("z"), "x": arr_val([1])}], "exit": "ret"}], "typeguard", None)
        ctxs = [contextvars.copy_context() for _ in progs]
    sch = Scheduler(files, [runner(p) for p in progs], schedule, functions=_MODE["functions"], contexts=ctxs, raw_threads=_MODE["raw"], opcodes=_MODE["opcodes"])
    res = sch.run()
    if sch.failed:
        raise InfraError("scheduler: " + sch.failed)
    return res, sch


def first_diff(a, b):
    ao = a.get("obs") if isinstance(a, dict) else a
    bo = b.get("obs") if isinstance(b, dict) else b
    if isinstance(ao, list) and isinstance(bo, list):
        for k, (x, y) in enumerate(zip(ao, bo)):
            if x != y:
                return f"observation {k}: alone {json.dumps(y)[:160]} / interleaved {json.dumps(x)[:160]}"
        if len(ao) != len(bo):
            return f"transcript lengths {len(bo)} alone / {len(ao)} interleaved"
    return f"alone {json.dumps(b)[:200]} / interleaved {json.dumps(a)[:200]}"


def explore(out, files, progs, solo, schedules, tag, npoints):
    for sched in schedules:
        res, sch = run_schedule(files, progs, sched)
        # non-trivial: some preemption really happened before the first thread finished
        out.case((tag, json.dumps(sched)), sch.switches >= 2, sample={"workloads": tag, "schedule": sched, "yield_points": sch.points, "switches": sch.switches})
        out.count("schedules_" + tag)
        for t, (got, want) in enumerate(zip(res, solo)):
            if got != want:
                kind = "resid" if (isinstance(got, dict) and isinstance(want, dict) and got.get("obs") == want.get("obs")) else "transcript"
                out.violation(
                    f"isolation:{tag}:thread{t}:{kind}",
                    f"thread {t} of workload set {tag} observes something else under schedule {sched} than when run alone: {first_diff(got, want)}",
                    {"workloads": progs, "schedule": sched, "thread": t, "interleaved": got, "alone": want, "tier_files": "all" if len(files) > 1 else "_storage.py",
                     "opcodes": bool(_MODE["opcodes"]), "with_functions": bool(_MODE["functions"]), "contexts": _MODE["contexts"], "raw": _MODE["raw"]},
                )
                return False
    return True


def run(tier, seed, out, drv, facts):
    rng = Rng(seed, "C06")
    thorough = tier == "thorough"
    files = files_for(tier)
    _MODE["functions"] = functions_for(tier)
    _MODE["contexts"] = False
    sets = [("w0w1w2", [workload(0), workload(1), workload(2)])]
    if thorough:
        sets += [("w0w1", [workload(0), workload(1)]), ("w0w2", [workload(0), workload(2)]), ("w1w2", [workload(1), workload(2)]), ("w3w4w5", [workload(3), workload(4), workload(5)])]
        for k in range(4):
            r = Rng(seed * 1000 + k, "C06-prog")
            sets.append((f"rand{k}", [gen_prog.rand_prog(r, 2, 4) + [WRONG_DTYPE, QMARK_OUTSIDE, P] for _ in range(2)]))
    skel, wrap = extract.skel_request(facts)
    for tag, progs in sets:
        n = len(progs)
        # solo transcripts (each workload alone, in a fresh thread, traced the same way) and the model's prediction
        solo, npoints = [], []
        for t in range(n):
            res, sch = run_schedule(files, [progs[t]], [(0, None)])
            solo.append(res[0])
            npoints.append(sch.points[0])
            w = drv.ask({"cmd": "prog", "prog": progs[t], "skel": skel, "wrap": wrap})
            if "skip" not in w:
                want = impl_prog.canon_model_obs(w["obs"])
                got = [o for o in res[0]["obs"] if o["o"] != "tcebindings"]
                want = [o for o in want if o["o"] != "tcebindings"]
                if got != want:
                    out.model_diff(f"solo:{tag}:{t}", f"the workload run alone differs from the model's sequential prediction: {first_diff({'obs': got}, {'obs': want})}", {"program": progs[t]})
            else:
                out.count("unmodelled_workload")
            if res[0]["resid"] != {"depth": 0, "flatten": False, "tp": False}:
                out.model_diff(f"solo-resid:{tag}:{t}", f"a workload run alone leaves thread state behind: {res[0]['resid']}", {"program": progs[t]})
        out.count("yield_points_" + tag, sum(npoints))
        # (1) every one-preemption schedule in which the preempting thread(s) run to completion
        schedules = []
        for a in range(n):
            others = [b for b in range(n) if b != a]
            stride = 1 if (len(files) == 1 or npoints[a] < 400) else max(1, npoints[a] // 400)
            for p in range(1, npoints[a], stride):
                order = others if (p % 2 or n == 2) else others[::-1]
                schedules.append([(a, p)] + [(b, None) for b in order] + [(a, None)])
        # (0) first of all, while this process has seen few thread idents: a sample with workers started through
        #     `_thread.start_new_thread` (state keyed by thread ident or by what `threading.enumerate()` lists behaves
        #     differently for idents it has met before, so the late phase (5) alone depends on the history of the run)
        _MODE["raw"] = True
        try:
            ok0 = explore(out, files, progs, solo, rng.sample(schedules, min(len(schedules), 200 if thorough else 40)), tag + "@raw-first", npoints)
        finally:
            _MODE["raw"] = False
        if not ok0:
            continue
        if not explore(out, files, progs, solo, schedules, tag, npoints):
            continue
        # (2) two overlapping windows; (3) multi-segment schedules
        extra = []
        for _ in range((600 if thorough else 120) if n == 2 else (400 if thorough else 80)):
            if n == 2 and rng.chance(2, 3):
                a = rng.below(2)
                b = 1 - a
                extra.append([(a, rng.rng(1, max(1, npoints[a] - 1))), (b, rng.rng(1, max(1, npoints[b] - 1))), (a, None), (b, None)])
            else:
                segs = []
                for _ in range(rng.rng(3, 8)):
                    t = rng.below(n)
                    segs.append((t, rng.rng(1, max(2, npoints[t] // 3))))
                extra.append(segs)
        explore(out, files, progs, solo, extra, tag + "+", npoints)
        # (4) the same threads started with context propagation (every worker inside a copy of one contextvars
        #     context that has already used jaxtyping): a sample of the one-preemption schedules
        _MODE["contexts"] = True
        try:
            explore(out, files, progs, solo, rng.sample(schedules, min(len(schedules), 300 if thorough else 60)), tag + "@ctx", npoints)
        finally:
            _MODE["contexts"] = False
        # (5) ... and with workers started through `_thread.start_new_thread` (alive but unknown to `threading.enumerate()`)
        _MODE["raw"] = True
        try:
            explore(out, files, progs, solo, rng.sample(schedules, min(len(schedules), 300 if thorough else 60)), tag + "@raw", npoints)
        finally:
            _MODE["raw"] = False
        broken = getattr(out, "proof", None) is not None and not out.proof.ok
        if tag == "w0w1w2" or thorough:
            opcode_phase(out, [os.path.join(REPO, "jaxtyping", "_storage.py")], progs, tag, rng, everything=broken or thorough)


def hot_lines(paths):
    """lines on which a thread writes something every thread can see: a name declared `global`, or an attribute / item of a
    module-level object that is not a `threading.local` — (file, line) for every line of such a statement. On the
    unchanged tree there is none in `_storage.py`."""
    import ast

    hot = set()
    for path in paths:
        with open(path) as fh:
            tree = ast.parse(fh.read())
        local_objs = set()
        shared_objs = set()
        for st in tree.body:
            if isinstance(st, ast.Assign) and len(st.targets) == 1 and isinstance(st.targets[0], ast.Name):
                v = st.value
                src = ast.unparse(v)
                if isinstance(v, ast.Call) and ("local" in src.split("(")[0]):
                    local_objs.add(st.targets[0].id)
                elif isinstance(v, (ast.List, ast.Dict, ast.Set, ast.Call, ast.Constant)):
                    shared_objs.add(st.targets[0].id)
        for fn in [n for n in ast.walk(tree) if isinstance(n, (ast.FunctionDef, ast.AsyncFunctionDef))]:
            globs = {n_ for g in ast.walk(fn) if isinstance(g, ast.Global) for n_ in g.names}
            for st in ast.walk(fn):
                if not isinstance(st, (ast.Assign, ast.AugAssign, ast.AnnAssign, ast.Expr, ast.Delete)):
                    continue
                targets = st.targets if isinstance(st, (ast.Assign, ast.Delete)) else [st.target] if isinstance(st, (ast.AugAssign, ast.AnnAssign)) else []
                hit = False
                for t in targets:
                    base = t
                    while isinstance(base, (ast.Attribute, ast.Subscript)):
                        base = base.value
                    if isinstance(t, ast.Name) and t.id in globs:
                        hit = True
                    elif isinstance(t, (ast.Attribute, ast.Subscript)) and isinstance(base, ast.Name) and base.id in shared_objs and base.id not in local_objs:
                        hit = True
                if isinstance(st, ast.Expr) and isinstance(st.value, ast.Call) and isinstance(st.value.func, ast.Attribute):
                    base = st.value.func.value
                    while isinstance(base, (ast.Attribute, ast.Subscript)):
                        base = base.value
                    if isinstance(base, ast.Name) and base.id in shared_objs and st.value.func.attr in ("append", "pop", "add", "remove", "clear", "update", "setdefault", "extend", "insert", "discard", "popitem"):
                        hit = True
                if hit:
                    for ln in range(st.lineno, (st.end_lineno or st.lineno) + 1):
                        hot.add((path, ln))
    return hot


def opcode_phase(out, files, progs, tag, rng, everything):
    """(6) writes to process-wide state split between two BYTECODES: thread A is stopped inside such a statement (after the
    read, before the write), thread B runs up to any of its own yield points, A finishes, B finishes. Only lines that
    write shared state are split; the unchanged tree has none in `_storage.py`, and then there is nothing to do."""
    hot = hot_lines(files)
    out.count("shared_write_lines", len(hot))
    if not hot:
        return
    _MODE["opcodes"] = hot
    try:
        n = len(progs)
        solo, npoints, hots = [], [], []
        # CPython 3.12 starts delivering per-instruction events for a code object only after a frame of it has asked for
        # them once (`f_trace_opcodes`) and tracing has been installed again: one discarded pass first
        for t in range(n):
            run_schedule(files, [progs[t]], [(0, None)])
        for t in range(n):
            res, sch = run_schedule(files, [progs[t]], [(0, None)])
            solo.append(res[0])
            npoints.append(sch.points[0])
            hots.append([h for h in sch.hot_hits if h is not None])
        out.count("opcode_yield_points_" + tag, sum(len(h) for h in hots))
        schedules = []
        for a in range(n):
            for b in range(n):
                if b == a:
                    continue
                rest = [x for x in range(n) if x not in (a, b)]
                for p in hots[a]:
                    qs = range(1, npoints[b])
                    if not everything:
                        qs = rng.sample(list(qs), min(len(qs), 40))
                    for q in qs:
                        schedules.append([(a, p), (b, q), (a, None), (b, None)] + [(x, None) for x in rest])
        cap = 6000 if everything else 400
        if len(schedules) > cap:
            schedules = rng.sample(schedules, cap)
        explore(out, files, progs, solo, schedules, tag + "@opcode", npoints)
    finally:
        _MODE["opcodes"] = False


def replay(rep, out, drv, facts):
    files = files_for("thorough" if rep.get("tier_files") == "all" else "quick")
    progs = rep["workloads"]
    _MODE["opcodes"] = hot_lines(files) if rep.get("opcodes") else False
    _MODE["functions"] = functions_for("quick") if rep.get("with_functions", rep.get("tier_files") != "all") else {}
    _MODE["contexts"], _MODE["raw"] = bool(rep.get("contexts")), bool(rep.get("raw"))
    if _MODE["opcodes"]:
        for p_ in progs:
            run_schedule(files, [p_], [(0, None)])      # see opcode_phase: a discarded pass switches the instruction events on
    solo = [run_schedule(files, [p], [(0, None)])[0][0] for p in progs]
    explore(out, files, progs, solo, [[tuple(s) for s in rep["schedule"]]], "replay", None)
