/-
Declarative vocabulary for PyTree checks (C08 / C09 / C16).
-/
import JaxVerif.Model.PyTree
import JaxVerif.Model.Struct

namespace JV

mutual
/-- replace the leaves of `t`, left to right, by the subtrees in `fs` (consuming them) -/
def Def.graft : Def → List Def → Option (Def × List Def)
  | .leaf, [] => none
  | .leaf, f :: fs => some (f, fs)
  | .node k cs, fs =>
    match Def.graftList cs fs with
    | some (cs', rest) => some (.node k cs', rest)
    | none => none
def Def.graftList : List Def → List Def → Option (List Def × List Def)
  | [], fs => some ([], fs)
  | c :: cs, fs =>
    match Def.graft c fs with
    | none => none
    | some (c', rest) =>
      match Def.graftList cs rest with
      | none => none
      | some (cs', rest') => some (c' :: cs', rest')
end

/-- leaf types whose check neither reads nor writes the context -/
inductive MemoFree : LType → Prop
  | any : MemoFree .any
  | int : MemoFree .int
  | str : MemoFree .str
  | noneT : MemoFree .noneT
  | user (acc : List String) : MemoFree (.user acc [])
  | tuple (ts : List LType) : (∀ t ∈ ts, MemoFree t) → MemoFree (.tuple ts)
  | union (ts : List LType) : (∀ t ∈ ts, MemoFree t) → MemoFree (.union ts)

mutual
/-- no custom flattener inside the value raises -/
def Obj.noFault : Obj → Bool
  | .custom _ fault xs => fault.isNone && Obj.noFaultList xs
  | .tuple xs => Obj.noFaultList xs
  | .list xs => Obj.noFaultList xs
  | .dict _ vs => Obj.noFaultList vs
  | .ntuple _ xs => Obj.noFaultList xs
  | _ => true
def Obj.noFaultList : List Obj → Bool
  | [] => true
  | x :: xs => x.noFault && Obj.noFaultList xs
end

/-- children of a value that `jax.tree_util` treats as a node; `none` = a leaf -/
def Obj.children? : Obj → Option (List Obj)
  | .tuple xs => some xs
  | .list xs => some xs
  | .dict _ vs => some vs
  | .ntuple _ xs => some xs
  | .custom _ _ xs => some xs
  | .none => some []
  | _ => Option.none

/-- `PyTree[L]` accepts `x`, declaratively: `x` itself matches `L`, or `x` is a node all of whose
    children are accepted (None and empty containers: vacuously) -/
inductive TreeAccepts (acc : Obj → Prop) : Obj → Prop
  | leaf (x : Obj) : acc x → TreeAccepts acc x
  | node (x : Obj) (cs : List Obj) : x.children? = some cs → (∀ c ∈ cs, TreeAccepts acc c) → TreeAccepts acc x

mutual
/-- one value against a memo-free leaf type, as typeguard decides it -/
def accL : LType → Obj → Bool
  | .any, _ => true
  | .int, x => (match x with | .int _ => true | _ => false)
  | .str, x => (match x with | .str _ => true | _ => false)
  | .noneT, x => (match x with | .none => true | _ => false)
  | .user acc _, x => (match x with | .opaque tag => acc.contains tag | _ => false)
  | .tuple ts, x =>
    (match x with
     | .tuple xs => xs.length == ts.length && accLs ts xs
     | .ntuple _ xs => xs.length == ts.length && accLs ts xs
     | _ => false)
  | .union ts, x => accLU ts x
  | .barePytree, _ => true
  | .arr _ _, _ => false
  | .pytree _ _, _ => false
def accLs : List LType → List Obj → Bool
  | [], _ => true
  | _ :: _, [] => true
  | t :: ts, x :: xs => accL t x && accLs ts xs
def accLU : List LType → Obj → Bool
  | [], _ => false
  | t :: ts, x => accL t x || accLU ts x
end

def Obj.isArrOf (cls : String) : Obj → Bool
  | .arr c _ => cls == "" || cls == c
  | _ => false

mutual
/-- the leaves `tree_flatten(x, is_leaf=p)` yields (pure; `None` and empty containers yield none) -/
def leavesWith (p : Obj → Bool) : Obj → List Obj
  | .tuple xs => if p (.tuple xs) then [.tuple xs] else leavesWithList p xs
  | .list xs => if p (.list xs) then [.list xs] else leavesWithList p xs
  | .dict ks vs => if p (.dict ks vs) then [.dict ks vs] else leavesWithList p vs
  | .ntuple t xs => if p (.ntuple t xs) then [.ntuple t xs] else leavesWithList p xs
  | .custom t f xs => if p (.custom t f xs) then [.custom t f xs] else leavesWithList p xs
  | .none => if p .none then [.none] else []
  | .int n => [.int n]
  | .str s => [.str s]
  | .opaque t => [.opaque t]
  | .arr c a => [.arr c a]
def leavesWithList (p : Obj → Bool) : List Obj → List Obj
  | [] => []
  | x :: xs => leavesWith p x ++ leavesWithList p xs
end

/-- leaf types through which the two transient flags pass untouched once the flags are
    re-entrant: everything except a *structured* PyTree -/
inductive FlagTransparent : LType → Prop
  | any : FlagTransparent .any
  | int : FlagTransparent .int
  | str : FlagTransparent .str
  | noneT : FlagTransparent .noneT
  | bare : FlagTransparent .barePytree
  | user (acc : List String) (f : List (String × Exc)) : FlagTransparent (.user acc f)
  | arr (cls : String) (a : Ann) : FlagTransparent (.arr cls a)
  | tuple (ts : List LType) : (∀ t ∈ ts, FlagTransparent t) → FlagTransparent (.tuple ts)
  | union (ts : List LType) : (∀ t ∈ ts, FlagTransparent t) → FlagTransparent (.union ts)
  | pytree (l : LType) : FlagTransparent l → FlagTransparent (.pytree l none)

/-- keys a check at `?`-position `tp` can read or write: plain names and names of that position -/
def Key.relevant (tp : TreePath) : Key → Prop
  | .plain _ => True
  | .leaf i t _ => tp = some (i, t)

/-- axis names are identifiers or empty; structure strings contain no ')' -/
def Key.WellFormed : Key → Prop
  | .plain x => x = "" ∨ isIdentStr x = true
  | .leaf _ t x => (x = "" ∨ isIdentStr x = true) ∧ ¬ (')' ∈ t.toList)

end JV
